"""Retry worlds: the function of the run manager that executes a node "with retry protocol" is interpreted (abstract
interpretation, nothing runs) over scripted bodies.  Everything between that function and the user's code is interpreted as
written - the retry loop and whatever helpers it is split into, the policy class and its properties, run_node_default - and only
the leaves are replaced:

  run_node(...)              follows the script of the scenario: per invocation a value token or an exception object; logs its arguments
  get_instance(node)         the node object of the world, whose get_default logs its keyword arguments and returns the DEFAULT token
  asyncio.sleep(d)           logs d
  ctx.emit_on_node_*         logs

Rules (C12: "retry and default policy is applied exactly as configured"):
  RT-2   BaseException that is not an Exception (cancellation, SystemExit) is neither retried nor replaced by the default - also
         when the exceptions setting names BaseException
  RT-3   get_default receives exactly the keyword arguments the body received; every invocation of the body receives them too
  RT-4   between two attempts the loop sleeps exactly the configured delay; the body is invoked once per attempt
  RT-5   a body that keeps failing with a retryable error is invoked exactly `attempts` times (1 when not configured)
  RT-6   exhausted or non-retryable failures yield the default only under use_default, otherwise the very exception the body raised
  RT-7   a failing get_default is not retried and not replaced: its error leaves, the body is not invoked again
  RT-8   the policy object is made from the policy class configured on the dag
  RT-9   the loop gives up for every counter value at or beyond the configured attempts (attempts = 0 / negative: one invocation)
"""
from __future__ import annotations

import ast
from typing import Any, Dict, List, Optional, Tuple

from ..absint import AClass, AExt, AObj, ARaise, Interp, Oracle, TOP, enumerate_outcomes
from ..engine import Ctx
from ..program import AnalysisError, ClassInfo, FuncEnv, FuncUnit
from ..report import Collector
from .ex import RUN_NODE
from .st import _abstract_world, argument_builder


def retry_entry(ctx: Ctx) -> FuncUnit:
    """The manager coroutine that receives the node's keyword arguments by ** and (transitively) invokes run_node."""
    mgr = ctx.manager_class()
    run_node = ctx.p.func(RUN_NODE)

    def reaches(u: FuncUnit, depth: int = 0, seen=None) -> bool:
        seen = seen if seen is not None else set()
        if u.fid in seen or depth > 3:
            return False
        seen.add(u.fid)
        env = FuncEnv.of(ctx.p, u)
        for c in env.own_nodes():
            if isinstance(c, ast.Call):
                for t in env.resolve_call(c):
                    if t[0] == 'func' and (t[1] is run_node or (t[1].cls is mgr and reaches(t[1], depth + 1, seen))):
                        return True
        return False
    cands = [m for m in mgr.methods.values() if m.is_async and not isinstance(m.node, ast.Lambda) and m.node.args.kwarg is not None and reaches(m)]
    if not cands:
        # the arguments are not handed over by **: the coroutine that invokes run_node itself (it reads them on its own)
        def direct(u: FuncUnit) -> bool:
            env = FuncEnv.of(ctx.p, u)
            return any(isinstance(c, ast.Call) and any(t[0] == 'func' and t[1] is run_node for t in env.resolve_call(c)) for c in env.own_nodes())
        cands = [m for m in mgr.methods.values() if m.is_async and not isinstance(m.node, ast.Lambda) and direct(m)]
    if len(cands) != 1:
        raise AnalysisError(f'the retry executor of the run manager (a coroutine taking the node arguments by **) was not identified '
                            f'({[m.name for m in cands]}) (RT anchors vanished)')
    return cands[0]


class _EndlessRetry(BaseException):
    """Stops the interpretation of a loop that does not give up (not catchable by the interpreted handlers)."""


def _exc(kind: str, tag: str, cause: Optional[AObj] = None) -> AObj:
    return AObj(('ext', f'builtins.{kind}' if kind != 'CancelledError' else 'asyncio.CancelledError'),
                {'args': (), '__what__': f'{kind} ({tag})', '__cause__': cause, '__context__': cause, '__traceback__': None,
                 '__suppress_context__': cause is not None, '__notes__': []}, tag=f'exc:{kind}:{tag}')


class Scenario:
    def __init__(self, script, attempts=None, delay=None, exceptions=None, use_default=False, force_default=False,
                 default_raises=False, policy: Optional[str] = None, pool_missing: bool = False) -> None:
        self.script = script              # per invocation: ('value',) | ('raise', kind)
        self.attempts, self.delay, self.exceptions = attempts, delay, exceptions
        self.use_default, self.force_default, self.default_raises = use_default, force_default, default_raises
        self.policy = policy              # None: the policy class of the repo; 'custom:<attempts>': a user policy object
        self.pool_missing = pool_missing  # the dispatcher itself is interpreted, for a pool node, with no pool registered


def _observe(ctx: Ctx, sc: Scenario) -> List[Dict[str, Any]]:
    """The observations of a scenario: one per resolution of what the world leaves open (the state of the surrounding dag
    and store, when the executor consults them) - the documented behaviour must hold in each."""
    captured: Dict[str, Any] = {}
    seen: List[Dict[str, Any]] = []
    run_scenario_capture(ctx, sc, captured, seen)
    if not seen:
        raise AnalysisError('retry world: no observation')
    return seen


def run_scenario_capture(ctx: Ctx, sc: Scenario, captured: Dict[str, Any], seen: Optional[List[Dict[str, Any]]] = None):
    """Like run_scenario, but the logs are kept also when the interpreted function raises."""
    p = ctx.p
    entry = retry_entry(ctx)
    mgr_cls = ctx.manager_class()
    run_node = p.func(RUN_NODE)
    gi = [u for u in p.functions.values() if u.parent is None and u.cls is None and u.name == 'get_instance']
    pol_cls = next((ci for ci in p.classes.values() if ci.name == 'NodeRetryPolicy'), None)
    if pol_cls is None or not gi:
        raise AnalysisError('NodeRetryPolicy / get_instance not found (RT anchors vanished)')

    def run(oracle: Oracle):
        log: Dict[str, list] = {'body': [], 'default': [], 'sleep': [], 'complete': []}
        value, default = AObj(('ext', 'Value'), {}, tag='body-value'), AObj(('ext', 'Value'), {}, tag='DEFAULT')
        raised: List[AObj] = []
        kw = {'x': AObj(('ext', 'Value'), {}, tag='arg-x'), 'y': 0}
        captured.clear()
        captured.update({'log': log, 'kw': kw, 'value': value, 'default': default, 'raised': raised, 'outcome': None})
        exc_classes = None
        if sc.exceptions is not None:
            exc_classes = tuple(AClass(('ext', f'builtins.{n}')) for n in sc.exceptions)
        node = AObj(('ext', 'NodeClass'), {'use_default': sc.use_default, 'attempts': sc.attempts, 'delay': sc.delay,
                                           'exceptions': exc_classes, 'name': 'n', 'tags': ()}, tag='node')

        def body(interp, a, k, s_):
            i = len(log['body'])
            log['body'].append((list(a), dict(k)))
            if i > 40:
                captured['endless'] = True
                raise _EndlessRetry()
            step = sc.script[min(i, len(sc.script) - 1)]
            if step[0] == 'raise':
                cause = _exc(step[2], f'cause, attempt {i + 1}') if len(step) > 2 else None
                e = _exc(step[1], f'attempt {i + 1}', cause)
                raised.append(e)
                raise ARaise(e.attrs['__what__'], e)
            return value

        def get_default(a, k):
            log['default'].append((list(a), dict(k)))
            if sc.default_raises:
                e = _exc(sc.default_raises if isinstance(sc.default_raises, str) else 'LookupError', 'get_default')
                raised.append(e)
                raise ARaise(e.attrs['__what__'], e)
            return default
        instance = AObj(('ext', 'NodeInstance'), {'get_default': AExt('world.get_default')}, tag='node-instance')
        stubs = {run_node.fid: body}
        if sc.pool_missing:
            # the dispatcher as written: a synchronous body without tags goes to the thread pool, whose registry (interpreted
            # from its module-level construction) holds no pool - fetching it is the engine's own error
            stubs = {}
            for u in p.functions.values():
                if u.name == 'get_callable_run_method' and u.parent is None:
                    stubs[u.fid] = lambda interp, a, k, s_: AExt('world.body')
        reads: List[dict] = []

        def read_arguments(interp, a, k, s_):
            # every look-up of the node's arguments sees the store as it is at that moment: the first read is what the node was
            # started with; a later read yields other objects
            cur = dict(kw) if not reads else {'x': AObj(('ext', 'Value'), {}, tag=f'arg-x (read {len(reads) + 1})'), 'y': len(reads)}
            reads.append(cur)
            return dict(cur)
        stubs[argument_builder(ctx).fid] = read_arguments
        for u in gi:
            stubs[u.fid] = lambda interp, a, k, s_: instance
        ext = {'world.get_default': get_default, 'asyncio.sleep': lambda a, k: log['sleep'].append(a[0] if a else k.get('delay')),
               'world.emit_complete': lambda a, k: log['complete'].append(dict(k) if k else list(a)),
               'world.emit_start': lambda a, k: None}
        if sc.pool_missing:
            ext.update({'inspect.iscoroutinefunction': lambda a, k: False, 'world.body': lambda a, k: body(None, a, k, None),
                        'asyncio.get_running_loop': lambda a, k: AObj(('ext', 'Loop'), {}, tag='loop'),
                        'asyncio.get_event_loop': lambda a, k: AObj(('ext', 'Loop'), {}, tag='loop')})
        interp = Interp(p, oracle, stubs=stubs, ext_stubs=ext)
        if sc.policy is None:
            policy: Any = AClass(pol_cls)
        else:
            n_att = int(sc.policy.split(':')[1])
            pobj = AObj(('ext', 'CustomPolicy'), {'attempts': n_att, 'delay': 2, 'exceptions': (AClass(('ext', 'builtins.Exception')),)}, tag='custom-policy')
            ext['world.policy'] = lambda a, k: pobj
            policy = AExt('world.policy')
        dag = AObj(('ext', 'DAG'), {'node_map': {'N': node}, 'retry_policy': policy, 'input_node': 'I', 'graph': TOP}, tag='DAG')
        cx = AObj(('ext', 'Context'), {'emit_on_node_complete': AExt('world.emit_complete'), 'emit_on_node_start': AExt('world.emit_start')}, tag='ctx')
        # the surroundings the executor may consult: a sub-dag of two nodes (this one and a sibling that has already failed),
        # of either kind, and the store of the run
        sibling_error = AObj(('ext', 'builtins.ValueError'), {'args': ()}, tag='error of the sibling')
        mgr, storage, adag = _abstract_world(ctx, {'node_results': {'M': ('visible', sibling_error)}}, dag_nodes=('N', 'M'), dest='N')
        mgr.attrs['dag'] = dag
        mgr.attrs['ctx'] = cx
        kwargs = dict(kw) if entry.node.args.kwarg is not None else {}
        a_ = entry.node.args
        defaults = dict(zip([x.arg for x in a_.args][len(a_.args) - len(a_.defaults):], a_.defaults))
        for prm in a_.args[1:] + a_.kwonlyargs:
            if prm.arg == 'node_id':
                kwargs['node_id'] = 'N'
            elif prm.arg == 'force_default':
                kwargs['force_default'] = sc.force_default
            elif prm.arg in defaults or prm.arg in {x.arg for x, d in zip(a_.kwonlyargs, a_.kw_defaults) if d is not None}:
                continue
            else:
                t_ = p.ann_to_type(prm.annotation, entry.module) if prm.annotation is not None else None
                if t_ and t_[0] == 'class' and t_[1] is adag.cls:
                    kwargs[prm.arg] = adag
                elif prm.annotation is not None and 'Graph' in ast.unparse(prm.annotation):
                    kwargs[prm.arg] = adag
                else:
                    raise AnalysisError(f'retry world: parameter {prm.arg} of {entry.fid} has no model')
        try:
            try:
                res = interp.call_unit(entry, [], kwargs, mgr)
            except _EndlessRetry:
                captured['outcome'] = ('raise', 'nothing: the body is invoked again and again', None)
                return None
            except ARaise as ex:
                captured['outcome'] = ('raise', ex.what, ex.obj)
                raise
            captured['outcome'] = ('value', res)
            return res
        finally:
            if seen is not None and captured.get('outcome') is not None:
                seen.append(dict(captured))
    return enumerate_outcomes(run)


def pool_missing_observations(ctx: Ctx) -> List[Dict[str, Any]]:
    """The retry executor with the real dispatcher below it, for a thread-pool node with attempts 3, delay 1 and use_default, while
    no pool is registered."""
    return _observe(ctx, Scenario([('value',)], attempts=3, delay=1, use_default=True, pool_missing=True))


def rule_retry_worlds(ctx: Ctx, out: Collector) -> None:
    entry = retry_entry(ctx)
    base = f'{entry.module.name}::{entry.qualname}'
    where = ctx.p.loc(entry, entry.node)
    V = ('value',)

    def R(kind):
        return ('raise', kind)
    results: Dict[str, Dict[str, Any]] = {}

    def obs(label: str, sc: Scenario) -> List[Dict[str, Any]]:
        os_ = _observe(ctx, sc)
        if len(os_) > 16:
            raise AnalysisError(f'retry world "{label}": {len(os_)} outcomes')
        for i, o in enumerate(os_):
            results[label if len(os_) == 1 else f'{label} [world {i + 1}]'] = o
        return os_

    def n_body(o):
        return len(o['log']['body'])

    def same_kwargs(call, o) -> bool:
        a, k = call
        rest = {kk: vv for kk, vv in k.items() if kk not in ('node', 'node_id')}
        return set(rest) == set(o['kw']) and all(rest[kk] is o['kw'][kk] or rest[kk] == o['kw'][kk] for kk in rest) and all(
            rest[kk] is o['kw'][kk] for kk in rest if isinstance(o['kw'][kk], AObj))

    def raised_is(o, idx) -> bool:
        oc = o['outcome']
        return oc is not None and oc[0] == 'raise' and len(o['raised']) > idx % max(len(o['raised']), 1) and oc[2] is o['raised'][idx]

    problems: Dict[str, List[str]] = {k: [] for k in ('RT-2', 'RT-2b', 'RT-3', 'RT-4', 'RT-5', 'RT-6', 'RT-7', 'RT-8', 'RT-9')}

    def und(o, label) -> bool:
        if 'undecided' in o:
            raise AnalysisError(f'retry world "{label}": {o["undecided"]}')
        return False

    # ---- RT-5 / RT-4 / RT-3: a body that fails twice and then succeeds, attempts = 3, delay = 5
    for o in obs('two failures then a value (attempts 3, delay 5)', Scenario([R('ValueError'), R('ValueError'), V], attempts=3, delay=5)):
        if o['outcome'] != ('value', o['value']):
            problems['RT-5'].append(f'attempts=3, the third invocation succeeds: outcome {_show(o["outcome"])}')
        if n_body(o) != 3:
            problems['RT-5'].append(f'attempts=3, two failures then a value: the body is invoked {n_body(o)} times')
        if o['log']['sleep'] != [5, 5]:
            problems['RT-4'].append(f'delay=5, two retries: sleeps {o["log"]["sleep"]}')
        if not all(same_kwargs(c, o) for c in o['log']['body']):
            problems['RT-3'].append('an invocation of the body does not receive exactly the node\'s keyword arguments')
        if o['log']['default']:
            problems['RT-6'].append('the default is produced although the body finally succeeded')
    # ---- exhausted, no default: the last error leaves, exactly `attempts` invocations
    for o in obs('always fails (attempts 3), no default', Scenario([R('ValueError')], attempts=3, delay=1)):
        if n_body(o) != 3:
            problems['RT-5'].append(f'attempts=3, always failing: the body is invoked {n_body(o)} times')
        if not (o['outcome'] and o['outcome'][0] == 'raise' and o['raised'] and o['outcome'][2] is o['raised'][-1]):
            problems['RT-6'].append(f'exhausted without use_default: {_show(o["outcome"])} instead of the exception the last attempt raised')
        if o['log']['sleep'] != [1, 1]:
            problems['RT-4'].append(f'delay=1, attempts=3, always failing: sleeps {o["log"]["sleep"]} (one sleep between two attempts, none after the last)')
    # ---- exhausted, default
    for o in obs('always fails (attempts 2), use_default', Scenario([R('ValueError')], attempts=2, delay=None, use_default=True)):
        if o['outcome'] != ('value', o['default']):
            problems['RT-6'].append(f'exhausted with use_default: {_show(o["outcome"])} instead of the default value')
        if n_body(o) != 2:
            problems['RT-5'].append(f'attempts=2, always failing, use_default: the body is invoked {n_body(o)} times')
        if len(o['log']['default']) != 1 or not same_kwargs(o['log']['default'][0], o):
            problems['RT-3'].append(f'get_default is invoked {len(o["log"]["default"])} time(s) with {[sorted(c[1]) for c in o["log"]["default"]]}, '
                                    f'the body received {sorted(o["kw"])}')
        if o['log']['sleep'] != [0]:
            problems['RT-4'].append(f'delay not configured: sleeps {o["log"]["sleep"]} (documented default 0)')
    # ---- attempts not configured: one invocation
    for o in obs('fails once, attempts not configured', Scenario([R('ValueError')])):
        if n_body(o) != 1 or o['log']['sleep']:
            problems['RT-5'].append(f'attempts not configured: the body is invoked {n_body(o)} times, sleeps {o["log"]["sleep"]} (documented default 1)')
    # ---- a non-retryable Exception
    for o in obs('KeyError while only ValueError is retryable, no default', Scenario([R('KeyError'), V], attempts=3, exceptions=('ValueError',))):
        if n_body(o) != 1 or o['log']['sleep']:
            problems['RT-6'].append(f'an exception outside the exceptions setting is retried ({n_body(o)} invocations)')
        if not (o['outcome'] and o['outcome'][0] == 'raise' and o['outcome'][2] is o['raised'][0]):
            problems['RT-6'].append(f'a non-retryable exception without use_default: {_show(o["outcome"])} instead of that exception')
    for o in obs('KeyError while only ValueError is retryable, use_default', Scenario([R('KeyError'), V], attempts=3, exceptions=('ValueError',), use_default=True)):
        if o['outcome'] != ('value', o['default']) or n_body(o) != 1:
            problems['RT-6'].append(f'a non-retryable exception with use_default: {_show(o["outcome"])} after {n_body(o)} invocation(s)')
    for o in obs('ValueError is retryable by name', Scenario([R('ValueError'), V], attempts=3, exceptions=('ValueError',))):
        if n_body(o) != 2 or o['outcome'] != ('value', o['value']):
            problems['RT-5'].append(f'an exception named by the exceptions setting is not retried ({n_body(o)} invocations, {_show(o["outcome"])})')
    # ---- a setting that names a class above Exception matches every Exception of the body
    for o in obs('ValueError twice then a value, exceptions=(BaseException,), attempts 3',
                 Scenario([R('ValueError'), R('ValueError'), V], attempts=3, exceptions=('BaseException',))):
        if n_body(o) != 3 or o['outcome'] != ('value', o['value']):
            problems['RT-5'].append(f'an Exception matching the exceptions setting (BaseException,) is not retried up to attempts=3 '
                                    f'({n_body(o)} invocation(s), {_show(o["outcome"])})')
    # ---- what is matched against the setting is the raised exception itself, not what it was raised from
    for o in obs('KeyError raised from a ValueError while only ValueError is retryable',
                 Scenario([('raise', 'KeyError', 'ValueError'), V], attempts=3, exceptions=('ValueError',))):
        if n_body(o) != 1 or o['log']['sleep'] or not (o['outcome'] and o['outcome'][0] == 'raise' and o['outcome'][2] is o['raised'][0]):
            problems['RT-6'].append(f'an exception outside the setting whose __cause__ is inside it: {n_body(o)} invocation(s), {_show(o["outcome"])} '
                                    f'(not retryable: one invocation, that exception leaves)')
    # ---- RT-2: non-Exception errors
    for kind in ('CancelledError', 'SystemExit', 'KeyboardInterrupt'):
        for excs in (None, ('BaseException',)):
            label = f'{kind}, exceptions={excs or "default"}, attempts 3, use_default'
            for o in obs(label, Scenario([R(kind), V], attempts=3, exceptions=excs, use_default=True)):
                if not (o['outcome'] and o['outcome'][0] == 'raise' and kind in o['outcome'][1]) or n_body(o) != 1 or o['log']['default']:
                    problems['RT-2' if excs is None else 'RT-2b'].append(
                        f'{kind} (exceptions setting {excs or "default"}): {_show(o["outcome"])} after {n_body(o)} invocation(s), '
                        f'{len(o["log"]["default"])} default(s)')
    # ---- force_default
    for o in obs('force_default', Scenario([V], attempts=3, force_default=True)):
        if n_body(o) != 0 or o['outcome'] != ('value', o['default']) or len(o['log']['default']) != 1 or not same_kwargs(o['log']['default'][0], o):
            problems['RT-3'].append(f'force_default: {_show(o["outcome"])}, body invoked {n_body(o)} time(s), get_default with '
                                    f'{[sorted(c[1]) for c in o["log"]["default"]]}')
    for o in obs('force_default, get_default raises', Scenario([V], attempts=3, force_default=True, default_raises=True, use_default=True)):
        if n_body(o) != 0 or len(o['log']['default']) != 1 or not (o['outcome'] and o['outcome'][0] == 'raise' and 'LookupError' in o['outcome'][1]):
            problems['RT-7'].append(f'a failing get_default under force_default: {_show(o["outcome"])} after {n_body(o)} invocation(s) of the body and '
                                    f'{len(o["log"]["default"])} of get_default (the forced default is produced inside the protected region)')
    # ---- RT-7: a failing get_default
    for o in obs('always fails (attempts 2), use_default, get_default raises', Scenario([R('ValueError')], attempts=2, use_default=True, default_raises=True)):
        if n_body(o) != 2 or len(o['log']['default']) != 1 or not (o['outcome'] and o['outcome'][0] == 'raise' and 'LookupError' in o['outcome'][1]):
            problems['RT-7'].append(f'a failing get_default: {_show(o["outcome"])} after {n_body(o)} invocation(s) of the body and '
                                    f'{len(o["log"]["default"])} of get_default (the default is produced inside the protected region)')
    for o in obs('non-retryable failure, use_default, get_default raises', Scenario([R('KeyError')], attempts=3, exceptions=('ValueError',), use_default=True,
                                                                                   default_raises=True)):
        if n_body(o) != 1 or len(o['log']['default']) != 1 or not (o['outcome'] and o['outcome'][0] == 'raise' and 'LookupError' in o['outcome'][1]):
            problems['RT-7'].append(f'a failing get_default after a non-retryable failure: {_show(o["outcome"])} after {n_body(o)} / '
                                    f'{len(o["log"]["default"])} invocation(s)')
    for kind in ('TypeError', 'AttributeError', 'RuntimeError'):
        for o in obs(f'always fails (attempts 2), use_default, get_default raises {kind}',
                     Scenario([R('ValueError')], attempts=2, use_default=True, default_raises=kind)):
            if len(o['log']['default']) != 1 or not (o['outcome'] and o['outcome'][0] == 'raise' and o['raised'] and o['outcome'][2] is o['raised'][-1]):
                problems['RT-7'].append(f'get_default raises {kind}: {_show(o["outcome"])} after {len(o["log"]["default"])} invocation(s) of get_default '
                                        f'with {[sorted(c[1]) for c in o["log"]["default"]]} (its error is the node\'s error; it is invoked once, with the node\'s arguments)')
        for o in obs(f'force_default, get_default raises {kind}', Scenario([V], attempts=3, force_default=True, default_raises=kind)):
            if len(o['log']['default']) != 1 or not (o['outcome'] and o['outcome'][0] == 'raise' and o['raised'] and o['outcome'][2] is o['raised'][-1]):
                problems['RT-7'].append(f'forced default, get_default raises {kind}: {_show(o["outcome"])} after {len(o["log"]["default"])} invocation(s) of get_default')
    # ---- RT-8 / RT-9: the policy of the dag, and counters at / beyond the limit
    for o in obs('custom policy of the dag (attempts 2)', Scenario([R('ValueError')], attempts=7, policy='custom:2')):
        if n_body(o) != 2 or o['log']['sleep'] != [2]:
            problems['RT-8'].append(f'the dag is configured with its own policy (attempts 2, delay 2; the node says 7): {n_body(o)} invocations, '
                                    f'sleeps {o["log"]["sleep"]}')
    for att in (0, -1, 1):
        for o in obs(f'custom policy with attempts {att}', Scenario([R('ValueError')], policy=f'custom:{att}')):
            if n_body(o) != 1 or o['log']['sleep']:
                problems['RT-9'].append(f'attempts={att}: {n_body(o)} invocations, sleeps {o["log"]["sleep"]} (one invocation, then give up)')
    for k_ in problems:
        problems[k_] = list(dict.fromkeys(problems[k_]))
    for label, v in results.items():
        if v.get('endless'):
            problems['RT-9'].append(f'{label}: the body is invoked more than 40 times - the loop never gives up')
    titles = {
        'RT-2': ('handler classes of the invocation', 'a non-Exception error of the body (cancellation, SystemExit) is retried or replaced by the default'),
        'RT-2b': ('non-Exception errors caught by the policy handler are re-raised at once',
                  'with an exceptions setting that names BaseException, cancellation / SystemExit of the body is retried or replaced by the default'),
        'RT-3': ('get_default receives the same keyword arguments as the body', 'the keyword arguments of the body / of get_default are not the node\'s'),
        'RT-4': ('every retry sleeps the configured delay and invokes the body once', 'the pause between attempts is not the configured delay'),
        'RT-5': ('the attempt counter idiom yields exactly `attempts` invocations', 'the body is not invoked exactly `attempts` times'),
        'RT-6': ('exhausted / non-retryable failures yield the default only under use_default, else re-raise',
                 'the outcome of an exhausted or non-retryable failure is not (default under use_default | the raised exception)'),
        'RT-7': ('the default is not produced inside the protected region', 'a failing get_default is retried, swallowed or replaced'),
        'RT-8': ('the retry policy of the dag is the one applied', 'the policy configured on the dag is ignored'),
        'RT-9': ('the loop gives up for every counter value at or beyond the limit', 'a limit at or below the counter does not end the loop'),
    }
    table = {k: _show(v.get('outcome')) + f' | body x{len(v["log"]["body"])}, default x{len(v["log"]["default"])}, sleeps {v["log"]["sleep"]}'
             for k, v in results.items() if 'log' in v}
    for rid, (title, consequence) in titles.items():
        cons = f'{base}::{title}'
        rule = 'RT-2' if rid == 'RT-2b' else rid
        if not problems[rid]:
            out.ok(rule, cons, where, f'{len(results)} scripted bodies interpreted', table=table if rid == 'RT-5' else {})
        else:
            out.bad(rule, cons, where, f'{consequence}: ' + '; '.join(problems[rid][:3]), table=table)


def _show(oc) -> str:
    if oc is None:
        return 'no outcome'
    if oc[0] == 'value':
        return f'returns {getattr(oc[1], "tag", oc[1])}'
    return f'raises {oc[1]}'
