"""ON-* (C04: at most one execution per run and iteration) and RD-5 (owner-only publish)."""
from __future__ import annotations

import ast
from typing import Any, Dict, List, Optional, Tuple

from .. import sym
from ..cfg import Ev, Graph, reach
from ..engine import Ctx
from ..paths import ALL_LABELS, EXC_LABELS, NORMAL_LABELS, Search
from ..program import AnalysisError, FuncEnv
from ..report import Collector
from .common import Publish, hides, notify_points, outer_site, path_text, publishes
from .wk import _value_from_body


def _is_membership(t, K) -> bool:
    """t is the term of a `processed_nodes` membership read of K."""
    if isinstance(t, tuple) and t and t[0] == 'call' and len(t) > 2 and t[2]:
        recv = t[2][0]
        if isinstance(recv, tuple) and recv and recv[0] == 'attr' and recv[2] == 'processed_nodes':
            return len(t[2]) > 1 and t[2][1] == K
    return False


_PRED_CTX: List[Ctx] = []
_PRED_TABLES: Dict[Tuple, Optional[Dict[str, Any]]] = {}


def _predicate_table(fid: str, extra: Tuple) -> Optional[Dict[str, Any]]:
    """What a predicate of the hiding dictionary answers about a key that is absent / hidden / visible there (interpreted on the
    class's own objects, with the constant further arguments of the call): state -> value, or None when it is not decided."""
    if not _PRED_CTX:
        return None
    ctx = _PRED_CTX[-1]
    key = (id(ctx), fid, extra)
    if key in _PRED_TABLES:
        return _PRED_TABLES[key]
    table: Optional[Dict[str, Any]] = None
    try:
        from ..absint import Interp, Oracle, enumerate_outcomes, make_hidden_dict
        unit = ctx.p.func(fid)
        if unit.cls is not None and all(isinstance(x, tuple) and x and x[0] == 'const' for x in extra):
            table = {}
            for state in ('absent', 'hidden', 'visible'):
                def run(oracle, state=state):
                    obj = make_hidden_dict(ctx.p, unit.cls, {'K': (state, 1)})
                    return Interp(ctx.p, oracle).call_unit(unit, ['K'] + [x[1] for x in extra], {}, obj)
                outs = enumerate_outcomes(run)
                vals = {o[1] if o[0] == 'value' else ('raise', o[1]) for o in outs}
                if len(vals) != 1 or not isinstance(next(iter(vals)), bool):
                    table = None
                    break
                table[state] = next(iter(vals))
    except Exception:
        table = None
    _PRED_TABLES[key] = table
    return table


def _implies_unprocessed(t, pol: bool, K) -> bool:
    """The outcome `pol` of the test with term `t` holds only if K is *not* marked as processed."""
    if not isinstance(t, tuple) or not t:
        return False
    if t[0] == 'call' and isinstance(t[1], str) and not t[1].startswith('ext:') and len(t) > 2 and len(t[2]) >= 2 and t[2][1] == K:
        recv = t[2][0]
        if isinstance(recv, tuple) and recv and recv[0] == 'attr' and recv[2] == 'processed_nodes':
            # a predicate of the hiding dictionary about K in the store of the marks: decided by its truth table - the outcome
            # implies "not (visibly) marked" iff a visible mark cannot produce it
            table = _predicate_table(t[1], tuple(t[2][2:]))
            if table is not None:
                return table['visible'] != pol
    if t[0] == 'not':
        return _implies_unprocessed(t[1], not pol, K)
    if t[0] in ('and', 'or'):
        every = (t[0] == 'or') == pol         # or-true / and-false: every operand must imply it
        vals = [_implies_unprocessed(x, pol, K) for x in t[1]]
        return all(vals) if every else any(vals)
    if t[0] == 'call' and t[1] == 'ext:builtins.bool' and t[2]:
        return _implies_unprocessed(t[2][0], pol, K)
    if _is_membership(t, K):
        return not pol
    # the predicate of the hiding dictionary written out (single-expression `exists`): `K in <processed_nodes>` (or its data) is
    # the membership itself; `K in <processed_nodes>.<set of hidden keys>` being true means the mark is hidden (re-armed)
    if t[0] == 'cmp' and t[1] == 'In' and len(t) > 3 and t[2] == K:
        cont = t[3]
        if isinstance(cont, tuple) and cont and cont[0] == 'attr':
            if cont[2] == 'processed_nodes':
                return not pol
            inner = cont[1]
            if isinstance(inner, tuple) and inner and inner[0] == 'attr' and inner[2] == 'processed_nodes':
                return (not pol) if cont[2] == 'data' else pol
    return False


def _negative_processed_test(ctx: Ctx, prev: Optional[Ev], lab, K) -> bool:
    if not _PRED_CTX or _PRED_CTX[-1] is not ctx:
        _PRED_CTX.append(ctx)
    if prev is None or prev.kind != 'branch' or lab not in ('T', 'F') or prev.info.get('test') is None:
        return False
    return _implies_unprocessed(sym.term(ctx.p, prev.info['test'], prev.inst), lab == 'T', K)


def _marks(ctx: Ctx, g: Graph) -> List[Publish]:
    return [pb for pb in publishes(ctx, g, ['processed_nodes'])
            if not (isinstance(pb.key, tuple) and pb.key[0] == 'tuple')]


def rule_test_and_set(ctx: Ctx, out: Collector) -> None:
    """ON-1: between the negative processed-test of a node and its processed-mark there is no
    suspension point (check-then-act is atomic on the event loop)."""
    n = 0
    for fid, g in ctx.run_graphs().items():
        for mark in _marks(ctx, g):
            n += 1
            K = mark.key
            s = Search(ctx.p, g, EXC_LABELS)

            def estep(prev: Optional[Ev], lab, ev: Ev, state, facts, K=K):
                # state 1: a negative test of K has been seen and nothing was awaited since
                if _negative_processed_test(ctx, prev, lab, K):
                    state = 1
                if ev.kind == 'await' or (ev.kind == 'enter' and ev.info.get('is_async')):
                    state = 0
                return state

            res = s.run([(g.entry, 0, frozenset())], None, lambda ev, st, f: ev.id == mark.ev.id and st == 0,
                        edge_step=estep)
            cons = ctx.construct(g.root, mark.site.node) + ' [test-and-set] in task root ' + g.root.qualname
            if res is None:
                out.ok('ON-1', cons, mark.site.where(), 'every path to the processed-mark passes the negative test of the same '
                                                       'node with no suspension point in between')
            else:
                out.bad('ON-1', cons, mark.site.where(),
                        f'{sym.show(K)} can be marked as processed on a path where its processed-test is missing or separated '
                        f'from the mark by a suspension point: two requests interleave there and both execute the node',
                        path_text(g, res[0]))
    if n == 0:
        has_body = any(ctx.roles.body(ev) in ('process', 'executor') for g in ctx.run_graphs().values() for ev in g.events('call'))
        if not has_body:
            raise AnalysisError('no processed-mark and no node invocation found (ON-1 anchors vanished)')
        out.bad('ON-1', 'run path::processed-mark before node code', '', 'node code is invoked on the run path but no node is ever marked '
                'as processed: nothing prevents a second request from executing it again')


def _body_node_key(ctx: Ctx, ev: Ev):
    """The node-map key of the node whose code this BODY event runs."""
    c = ev.node
    terms = [sym.term(ctx.p, c.func, ev.inst)] + [sym.term(ctx.p, a, ev.inst) for a in c.args]
    for t in terms:
        for s in sym.subterms(t):
            if isinstance(s, tuple) and s and s[0] == 'idx':
                base = s[1]
                if isinstance(base, tuple) and base[0] == 'attr' and base[2] == 'node_map':
                    return s[2]
    return None


def rule_body_guarded(ctx: Ctx, out: Collector) -> None:
    """ON-2: node code is invoked only on paths that passed the processed-mark of that node."""
    n = 0
    seen = set()
    for fid, g in ctx.run_graphs().items():
        marks = _marks(ctx, g)
        for ev in g.events('call'):
            role = ctx.roles.body(ev)
            if role not in ('process', 'default', 'executor'):
                continue
            if ev.id not in g.reachable_from_entry():
                continue
            n += 1
            K = _body_node_key(ctx, ev)
            barrier = {m.ev.id for m in marks if K is None or m.key == K}
            s = Search(ctx.p, g, EXC_LABELS)

            def step(e, st, f, barrier=barrier):
                if e.id in barrier:
                    return None
                return 0

            res = s.run([(g.entry, 0, frozenset())], step, lambda e, st, f, ev=ev: e.id == ev.id)
            cons = ctx.construct(ev) + f' [{role}] in task root {g.root.qualname}'
            if cons in seen:
                continue
            seen.add(cons)
            if res is None:
                out.ok('ON-2', cons, ev.where(), 'node code runs only after the processed-mark of the same node')
            else:
                out.bad('ON-2', cons, ev.where(),
                        f'node code ({role}) can be invoked on a path that never marked the node as processed: the '
                        f'at-most-once guard is bypassed', path_text(g, res[0]))
    # node code must not be reachable from anything but task roots (checked: run() itself)
    grun = ctx.graph(ctx.manager_run().fid)
    for ev in grun.events('call'):
        if ctx.roles.body(ev) in ('process', 'default', 'executor'):
            out.bad('ON-2', ctx.construct(ev) + ' in run()', ev.where(), 'node code invoked directly from run(), outside the '
                                                                        'guarded executor')
    if n < 3:
        raise AnalysisError(f'only {n} node-code invocations found on the run path (ON-2 anchors vanished)')


def rule_hide_only_recurrent(ctx: Ctx, out: Collector) -> None:
    """ON-3: results / processed marks are hidden (re-armed) only in recurrent contexts."""
    n = 0
    seen = set()
    for fid, g in ctx.run_graphs().items():
        for ev, fld, key in hides(ctx, g):
            if fld not in ('node_results', 'processed_nodes'):
                continue
            if ev.id not in g.reachable_from_entry():
                continue
            n += 1
            site = outer_site(g, ev)
            s = Search(ctx.p, g, EXC_LABELS)

            def estep(prev, lab, e, state, facts):
                if prev is not None and prev.kind == 'branch' and prev.info.get('test') is not None and lab == 'T':
                    if _recurrent_test(ctx, prev):
                        return 1
                return state

            res = s.run([(g.entry, 0, frozenset())], None, lambda e, st, f, ev=ev: e.id == ev.id and st == 0,
                        edge_step=estep)
            cons = ctx.construct(g.root, site.node) + f' [hide {fld}] in task root {g.root.qualname}'
            if cons in seen:
                continue
            seen.add(cons)
            if res is None:
                out.ok('ON-3', cons, site.where(), 'results are hidden only under a recurrent-context test')
            else:
                out.bad('ON-3', cons, site.where(),
                        f'{fld} of {sym.show(key)} can be hidden outside a recurrent context: the node is re-armed and '
                        f'executes a second time in the same iteration', path_text(g, res[0]))
    if n == 0:
        raise AnalysisError('no HIDE primitive found on the run path (ON-3 anchor vanished)')


def _recurrent_test(ctx: Ctx, b: Ev) -> bool:
    test = b.info['test']
    for node in ast.walk(test):
        if isinstance(node, ast.Attribute) and node.attr == 'is_recurrent':
            return True
        if isinstance(node, ast.Call) and isinstance(node.func, ast.Name) and node.func.id == 'isinstance' and len(node.args) == 2:
            env = FuncEnv.of(ctx.p, b.inst.unit)
            elts = node.args[1].elts if isinstance(node.args[1], ast.Tuple) else [node.args[1]]
            for e in elts:
                t = env.type_of(e)
                if t[0] == 'type' and t[1][0] == 'class' and t[1][1].name == 'Recurrent':
                    return True
    # a flag assigned from such a test
    if isinstance(test, ast.Name):
        e, i = sym.resolve_value(ctx.p, test, b.inst)
        if e is not test and not isinstance(e, ast.Name):
            fake = Ev(-1, 'branch', e, i, {'test': e})
            return _recurrent_test(ctx, fake)
    return False


def rule_event_after_publish(ctx: Ctx, out: Collector) -> None:
    """ON-4: a node's execution event is never set before its result is published (second arrivals
    read the result right after the event)."""
    n = 0
    for fid, g in ctx.run_graphs().items():
        pubs = [pb for pb in publishes(ctx, g, ['node_results']) if _value_from_body(ctx, pb)]
        for ev in g.events('call'):
            K = ctx.roles.event_set(ev)
            if K is None:
                continue
            n += 1
            later = [pb for pb in pubs if pb.key == K]
            targets = {pb.ev.id for pb in later}
            r = reach(g, [ev.id], labels=EXC_LABELS)
            hit = sorted(targets & r)
            site = outer_site(g, ev)
            cons = ctx.construct(g.root, site.node) + f' [Event.set({sym.show(K)})] in task root {g.root.qualname}'
            if not hit:
                out.ok('ON-4', cons, site.where(), 'no publish of the node result can follow the event')
            else:
                out.bad('ON-4', cons, site.where(),
                        f'Event.set({sym.show(K)}) can be followed by the publish of node_results[{sym.show(K)}]: a second '
                        f'arrival released by the event reads the result before it is written',
                        [f'{ev.where()} [call] {ev.text()}', f'{g.evs[hit[0]].where()} [store] {g.evs[hit[0]].text()}'])
    if n == 0:
        raise AnalysisError('no Event.set found on the run path (ON-4 anchor vanished)')


def rule_owner_only_publish(ctx: Ctx, out: Collector) -> None:
    """RD-5 / ON-5 / AS-2: only the activation that marked the node as processed (the owner of the
    execution) publishes / saves its result."""
    n = 0
    results = {}
    for fid, g in ctx.run_graphs().items():
        marks = _marks(ctx, g)
        for pb in publishes(ctx, g, ['node_results']):
            if not _value_from_body(ctx, pb):
                continue
            n += 1
            barrier = {m.ev.id for m in marks if m.key == pb.key}
            s = Search(ctx.p, g, EXC_LABELS)

            def step(e, st, f, barrier=barrier):
                if e.id in barrier:
                    return None
                return 0

            res = s.run([(g.entry, 0, frozenset())], step, lambda e, st, f, pb=pb: e.id == pb.ev.id)
            cons = ctx.construct(pb.home) + ' [publish by non-owner]'
            prev = results.get(cons)
            if prev is None or (prev[0] is None and res is not None):
                results[cons] = (res, pb, g)
    for cons, (res, pb, g) in sorted(results.items()):
        if res is None:
            out.ok('RD-5', cons, pb.home.where(), 'the result is published only by the activation that executed the node')
        else:
            out.bad('RD-5', cons, pb.home.where(),
                    f'node_results[{sym.show(pb.key)}] is (re)published on a path that did not execute the node (second '
                    f'arrival, task root {g.root.qualname}): it republishes what it read - None once the owner\'s result was '
                    f'hidden by a re-iteration - and consumers are invoked with it', path_text(g, res[0]))
    if n == 0:
        raise AnalysisError('no publish of a node value found (RD-5 anchor vanished)')


def rule_publish_atomic(ctx: Ctx, out: Collector) -> None:
    """PB-1: between the moment a node's value is obtained from its execution and the moment it is published
    there is no suspension point.  In between other tasks run: a re-iteration started for a Recurrent marker
    re-arms (hides) the node, and the late publish would un-hide the stale marker / value."""
    n = 0
    results = {}
    for fid, g in ctx.run_graphs().items():
        for pb in publishes(ctx, g, ['node_results']):
            if not _value_from_body(ctx, pb):
                continue
            # the call that produced the value
            e, i = sym.resolve_value(ctx.p, pb.ev.info['value'], pb.ev.inst)
            call = e.value if isinstance(e, ast.Await) else e
            if not isinstance(call, ast.Call):
                continue
            rets = [ev for ev in g.events('ret') if ev.node is call and ev.inst is i]
            if not rets:
                continue
            n += 1
            fwd = reach(g, [r.id for r in rets], labels=EXC_LABELS)
            # backward reachability to the publish
            back = {pb.ev.id}
            stack = [pb.ev.id]
            while stack:
                x = stack.pop()
                for m, lab in g.pred.get(x, ()):
                    if lab in EXC_LABELS and m not in back:
                        back.add(m)
                        stack.append(m)
            between = [g.evs[m] for m in sorted(fwd & back) if g.evs[m].kind == 'await']
            cons = ctx.construct(pb.home) + ' [value published without suspension after it was obtained]'
            prev = results.get(cons)
            if prev is None or (not prev[0] and between):
                results[cons] = (between, pb, g)
    for cons, (between, pb, g) in sorted(results.items()):
        if not between:
            out.ok('PB-1', cons, pb.home.where(), 'no await between obtaining the value and publishing it')
        else:
            a = between[0]
            out.bad('PB-1', cons, pb.home.where(),
                    f'between obtaining the node value and publishing node_results[{sym.show(pb.key)}] the task can be suspended '
                    f'({a.text(60)} at {a.where()}): the re-iteration task spawned for a Recurrent marker re-arms the node first, '
                    f'and the late publish un-hides the stale marker - iterations are consumed by stale results / consumers see a '
                    f'superseded value', [f'{a.where()} [await] {a.text()}'])
    if n == 0:
        raise AnalysisError('no publish of an executed node value found (PB-1 anchor vanished)')
