"""Syntax-directed guards: what is known to be true when an expression is evaluated.

For a node inside a function the guard set is built from
  * short-circuit operands to its left (`a and b and X`: a, b true; `a or X`: a false),
  * enclosing `if` / `while` / conditional-expression tests (branch polarity),
  * comprehension `if` clauses,
  * earlier statements of the enclosing blocks of the form `if c: <always leaves>` (c false afterwards)
    where "always leaves" = every path of the body ends in continue / break / return / raise.
Guards are returned as (expr, polarity) pairs, decomposed through not / and(true) / or(false).
"""
from __future__ import annotations

import ast
from typing import Dict, List, Optional, Tuple

_parent_cache: Dict[int, Dict[int, ast.AST]] = {}
_keep: List[ast.AST] = []


def parents(root: ast.AST) -> Dict[int, ast.AST]:
    key = id(root)
    if key not in _parent_cache:
        m: Dict[int, ast.AST] = {}
        for n in ast.walk(root):
            for c in ast.iter_child_nodes(n):
                m[id(c)] = n
        _parent_cache[key] = m
        _keep.append(root)
    return _parent_cache[key]


def always_leaves(body: List[ast.stmt]) -> bool:
    if not body:
        return False
    last = body[-1]
    if isinstance(last, (ast.Return, ast.Raise, ast.Continue, ast.Break)):
        return True
    if isinstance(last, ast.If):
        return always_leaves(last.body) and bool(last.orelse) and always_leaves(last.orelse)
    if isinstance(last, ast.Expr) and isinstance(last.value, ast.Await):
        # `await self.__raise_exc(...)`-like never-returning helpers are not recognised here
        return False
    return False


def decompose(expr: ast.AST, polarity: bool, out: List[Tuple[ast.AST, bool]]) -> None:
    if isinstance(expr, ast.UnaryOp) and isinstance(expr.op, ast.Not):
        decompose(expr.operand, not polarity, out)
        return
    if isinstance(expr, ast.BoolOp):
        if isinstance(expr.op, ast.And) and polarity:
            for v in expr.values:
                decompose(v, True, out)
            return
        if isinstance(expr.op, ast.Or) and not polarity:
            for v in expr.values:
                decompose(v, False, out)
            return
    if isinstance(expr, ast.Compare) and len(expr.ops) == 1:
        op = expr.ops[0]
        if isinstance(op, ast.NotIn):
            out.append((ast.Compare(left=expr.left, ops=[ast.In()], comparators=expr.comparators), not polarity))
            return
        if isinstance(op, ast.IsNot):
            out.append((ast.Compare(left=expr.left, ops=[ast.Is()], comparators=expr.comparators), not polarity))
            return
        if isinstance(op, ast.NotEq):
            out.append((ast.Compare(left=expr.left, ops=[ast.Eq()], comparators=expr.comparators), not polarity))
            return
    out.append((expr, polarity))


def guards(func_root: ast.AST, node: ast.AST) -> List[Tuple[ast.AST, bool]]:
    pm = parents(func_root)
    out: List[Tuple[ast.AST, bool]] = []
    cur = node
    while id(cur) in pm and cur is not func_root:
        par = pm[id(cur)]
        if isinstance(par, ast.BoolOp) and cur in par.values:
            idx = par.values.index(cur)
            for v in par.values[:idx]:
                decompose(v, isinstance(par.op, ast.And), out)
        elif isinstance(par, (ast.If, ast.While)):
            if cur in par.body:
                decompose(par.test, True, out)
            elif cur in par.orelse and isinstance(par, ast.If):
                decompose(par.test, False, out)
        elif isinstance(par, ast.IfExp):
            if cur is par.body:
                decompose(par.test, True, out)
            elif cur is par.orelse:
                decompose(par.test, False, out)
        elif isinstance(par, ast.comprehension):
            if cur in par.ifs:
                for c in par.ifs[:par.ifs.index(cur)]:
                    decompose(c, True, out)
        elif isinstance(par, (ast.ListComp, ast.SetComp, ast.GeneratorExp, ast.DictComp)):
            if cur is getattr(par, 'elt', None) or cur is getattr(par, 'key', None) or cur is getattr(par, 'value', None):
                for gen in par.generators:
                    for c in gen.ifs:
                        decompose(c, True, out)
        # earlier statements of the block that leave when their test holds
        for fieldname in ('body', 'orelse', 'finalbody'):
            block = getattr(par, fieldname, None)
            if isinstance(block, list) and cur in block:
                idx = block.index(cur)
                for st in block[:idx]:
                    if isinstance(st, ast.If) and not st.orelse and always_leaves(st.body):
                        decompose(st.test, False, out)
        if isinstance(par, (ast.FunctionDef, ast.AsyncFunctionDef, ast.Lambda)) and par is not func_root:
            break
        cur = par
    return out


def text(e: ast.AST) -> str:
    try:
        return ' '.join(ast.unparse(e).split())
    except Exception:
        return '?'


def has_guard(gs: List[Tuple[ast.AST, bool]], pred) -> bool:
    return any(pred(e, pol) for e, pol in gs)
