"""Sensitivity / specificity self-test of the checker (DESIGN 3.4).

* MUTANTS: single-instance breaks, each an edit of the *current* tree of /repo applied to a scratch copy
  (temp directory outside /repo and /verif, removed immediately).  The named rule must report a violation
  for the named property.
* BENIGN: behaviour-preserving edits (renames, inlined / outlined helpers, reordered independent
  notifications, added logging ...).  No check may report a new violation or become undecided.

An edit whose anchor text is absent from the current tree is "not applicable" (the tree was changed), not
a failure.  The corpus never decides a property: verdicts always come from the rules on /repo.
"""
from __future__ import annotations

import ast
import os
import shutil
import tempfile
from concurrent.futures import ProcessPoolExecutor
from typing import Dict, List, Optional, Tuple

M = 'ml_pipeline_engine/dag/manager.py'
S = 'ml_pipeline_engine/dag/storage.py'
B = 'ml_pipeline_engine/dag_builders/annotation/builder.py'
N = 'ml_pipeline_engine/node/node.py'
C = 'ml_pipeline_engine/chart.py'
F = 'ml_pipeline_engine/artifact_store/store/filesystem.py'
SER = 'ml_pipeline_engine/artifact_store/serializers.py'
V = 'ml_pipeline_viewer/visualization/dag.py'
D = 'ml_pipeline_engine/dag/dag.py'
E = 'ml_pipeline_engine/events.py'
G = 'ml_pipeline_engine/dag/graph.py'
R = 'ml_pipeline_engine/node/retrying.py'
TH = 'ml_pipeline_engine/parallelism/threads.py'
PB = 'ml_pipeline_engine/parallelism/basic.py'
PP = 'ml_pipeline_engine/parallelism/processes.py'
SC = 'ml_pipeline_viewer/visualization/schema.py'
CT = 'ml_pipeline_engine/context/dag.py'

# (id, [(file, old, new)], [(property, rule)])
MUTANTS: List[Tuple[str, List[Tuple[str, str, str]], List[Tuple[str, str]]]] = [
    ('wk-c-no-desc-notify-in-finally', [(M, "            await self.__unlock_descendants(node_id)\n            await self.__unlock_run_method()\n\n            if node_id == dag.dest:",
                                          "            await self.__unlock_run_method()\n\n            if node_id == dag.dest:")], [('C02', 'WK-c')]),
    ('wk-d-no-run-notify-in-finally', [(M, "            await self.__unlock_descendants(node_id)\n            await self.__unlock_run_method()\n\n            if node_id == dag.dest:",
                                         "            await self.__unlock_descendants(node_id)\n\n            if node_id == dag.dest:")], [('C02', 'WK-d')]),
    ('wk-e-no-self-notify', [(M, "            if node_id == dag.dest:\n                logger.debug('The node %s is an output node', node_id)\n                await self.__unlock_itself(node_id)",
                               "            if node_id == dag.dest:\n                logger.debug('The node %s is an output node', node_id)")], [('C02', 'WK-e')]),
    ('wk-a-switch-no-notify', [(M, "        finally:\n            # The selected case may have been computed for another consumer already. In that case nothing\n            # is executed here, so the consumers of the switch have to be notified explicitly.\n            await self.__unlock_descendants(node_id)",
                                 "        finally:\n            logger.debug('switch done')")], [('C02', 'WK-a'), ('C09', 'WK-a')]),
    ('wk-b-raise-without-notify', [(M, "        await self.__unlock_run_method()\n        raise exc", "        raise exc")], [('C02', 'WK-b')]),
    ('wk-f-no-dest-notify', [(M, "                await self.__unlock_itself(dag.dest)\n                return None", "                return None")], [('C02', 'WK-f'), ('C10', 'WK-f')]),
    ('wk-g-oneof-none', [(M, "self._node_storage.exists_node_result(subgraph_node_id)  # noqa: B023\n                        and not isinstance(",
                           "self._node_storage.get_node_result(subgraph_node_id) is not None  # noqa: B023\n                        and not isinstance(")], [('C02', 'WK-g'), ('C10', 'WK-g')]),
    ('wk-h-notify-one', [(M, "condition.notify_all()", "condition.notify()")], [('C02', 'WK-h')]),
    ('wk-k-event-not-set-on-recurrent', [(M, "                logger.debug('Skip unlocking the descendants of the node, node_id=%s', node_id)\n\n                if is_executor:\n                    self.__unlock_execution_lock(node_id)\n",
                                            "                logger.debug('Skip unlocking the descendants of the node, node_id=%s', node_id)\n")], [('C02', 'WK-k'), ('C04', 'WK-k')]),
    ('er5-unguarded-label', [(M, "        if not has_branch:\n            raise SwitchCaseDoesNotHaveBranchError(\n                f'The switch {switch_node_id} does not have a branch for the label {selected_branch_label!r}',\n            )\n\n", "")],
     [('C05', 'ER-5'), ('C09', 'ER-5'), ('C02', 'ER-5')]),
    ('st1-set-keeps-hidden', [(S, "        if key in self._hidden_keys:\n            self._hidden_keys.remove(key)\n\n        self[key] = value", "        self[key] = value")], [('C02', 'ST-1'), ('C11', 'ST-1')]),
    ('rd2-ready-ignores-recurrent', [(M, "                not self._node_storage.exists_node_result(pred_node_id)\n                # The node cannot be executed if there is a \"Recurrent\" result in the node's dependencies.\n                # Hence, the node should wait for proper a result or an error.\n                or isinstance(self._node_storage.get_node_result(pred_node_id), Recurrent)",
                                       "                not self._node_storage.exists_node_result(pred_node_id)")], [('C03', 'RD-2'), ('C11', 'RD-2')]),
    ('rd2-exists-sees-hidden', [(S, "    def exists_node_result(self, node_id: NodeId, with_hidden: bool = False) -> bool:", "    def exists_node_result(self, node_id: NodeId, with_hidden: bool = True) -> bool:")],
     [('C03', 'RD-2'), ('C11', 'RD-2')]),
    ('rd1-spawn-before-wait', [(M, "            await self._lock_manager.wait_for_condition(\n                node_id,\n                functools.partial(self._is_ready_to_execute, dag, node_id),\n            )\n\n            if dag.is_oneof and self.__has_subgraph_error(dag):",
                                 "            if dag.is_oneof and self.__has_subgraph_error(dag):")], [('C03', 'RD-1')]),
    ('rd3-builder-key-mismatch', [(B, "**{EdgeField.case_branch: case_branch},", "**{'case': case_branch},")], [('C03', 'RD-3'), ('C15', 'RD-3'), ('C09', 'SW-6')]),
    ('rd4-input-kwargs-empty', [(M, "            kwargs = dict(self.ctx.input_kwargs)", "            kwargs = dict(self.ctx.meta)")], [('C03', 'RD-4')]),
    ('sw3-no-indirection-in-kwargs', [(M, "                if self._is_switch(pred_node_id):\n                    kwargs[kwarg_name] = self._node_storage.get_node_result(\n                        # The verdict is read the same way as the results below: a re-iteration may have hidden it\n                        # after the node has been released\n                        self._node_storage.get_switch_result(pred_node_id, with_hidden=True).node_id,\n                        with_hidden=True,\n                    )\n\n                else:\n                    kwargs[kwarg_name]",
                                        "                if True:\n                    kwargs[kwarg_name]")], [('C03', 'SW-3'), ('C09', 'SW-3')]),
    ('sw4-hide-forgets-switch', [(S, "            self.hide_switch_result(node_id)\n", "")], [('C09', 'SW-4'), ('C11', 'SW-4')]),
    ('sw1-filter-edge-inverted', [(M, "            return EdgeField.case_branch not in self.dag.graph.edges[u, v]", "            return EdgeField.is_switch not in self.dag.graph.edges[u, v]")], [('C09', 'SW-1')]),
    ('sw1-node-filter-dropped', [(M, "filter_edge=_filter, filter_node=_filter_node),", "filter_edge=_filter),")], [('C10', 'SW-1')]),
    ('on1-mark-after-await', [(M, "        self._node_storage.set_node_as_processed(node_id)\n        await self.ctx.emit_on_node_start(node_id=node_id)",
                                "        await self.ctx.emit_on_node_start(node_id=node_id)\n        self._node_storage.set_node_as_processed(node_id)")], [('C04', 'ON-1')]),
    ('on2-body-without-mark', [(M, "        self._node_storage.set_node_as_processed(node_id)\n        await self.ctx.emit_on_node_start(node_id=node_id)", "        await self.ctx.emit_on_node_start(node_id=node_id)")], [('C04', 'ON-2')]),
    ('on3-hide-always', [(M, "        if dag.is_recurrent:\n            logger.debug('Hide previous node results for recurrent subgraph %s', list_node_ids)\n            self._node_storage.hide_last_execution(*list_node_ids)",
                           "        self._node_storage.hide_last_execution(*list_node_ids)")], [('C04', 'ON-3'), ('C11', 'ON-3')]),
    ('on4-event-before-publish', [(M, "            logger.debug('Save the result \"%s\" for the node %s', result, node_id)\n            self._node_storage.set_node_result(node_id, result)",
                                    "            self.__unlock_execution_lock(node_id)\n            self._node_storage.set_node_result(node_id, result)")], [('C04', 'ON-4')]),
    ('er1-cancelled-guard-dropped', [(M, "                coro_task.done()\n                and not coro_task.cancelled()\n                and isinstance(", "                coro_task.done()\n                and isinstance(")], [('C05', 'ER-1'), ('C13', 'ER-1')]),
    ('er2-chart-base-exception', [(C, "        except Exception as ex:\n            result = PipelineResult(", "        except BaseException as ex:\n            result = PipelineResult(")], [('C05', 'ER-2'), ('C13', 'LK-5')]),
    ('er2-chart-error-dropped', [(C, "value=None, error=ex)", "value=None, error=None)")], [('C05', 'ER-2')]),
    ('er3-error-test-dropped', [(M, "        if error is not None:\n            raise error\n", "")], [('C05', 'ER-3')]),
    ('er4-raise-keyerror', [(M, "            raise SwitchCaseDoesNotHaveBranchError(\n                f'The switch {switch_node_id} does not have a branch for the label {selected_branch_label!r}',\n            )", "            raise KeyError(selected_branch_label)")], [('C05', 'ER-4')]),
    ('er6-return-ex-always', [(M, "            if dag.is_oneof:\n                return ex\n\n            raise ex", "            return ex")], [('C05', 'ER-6'), ('C03', 'ER-6')]),
    ('cc1-await-task-in-loop', [(M, "            local_tasks.append(self._create_task(coro_to_run, name=node_id))", "            task = self._create_task(coro_to_run, name=node_id)\n            local_tasks.append(task)\n            await task")], [('C06', 'CC-1')]),
    ('cc1-await-node-inline', [(M, "                coro_to_run = self._run_node(\n                    node_id=node_id,\n                    dag=dag,\n                )", "                await self._run_node(node_id=node_id, dag=dag)\n                continue")], [('C06', 'CC-1')]),
    ('cc4-lexicographic-order', [(M, "node_id for node_id in nx.topological_sort(dag)", "node_id for node_id in nx.lexicographical_topological_sort(dag)")], [('C06', 'CC-4')]),
    ('cc5-inline-by-default', [(N, "    elif NodeTag.non_async in tags:", "    elif NodeTag.process not in tags:")], [('C06', 'CC-5')]),
    ('cc3-ready-reads-siblings', [(M, "        for pred_node_id in self._get_predecessors(dag, node_id):", "        for pred_node_id in list(dag.nodes):")], [('C06', 'CC-3')]),
    ('sh1-write-dag-graph', [(M, "            self._started_oneof_children.add(dest)", "            self._started_oneof_children.add(dest)\n            self.dag.graph.nodes[dest][NodeField.is_oneof_child] = False")], [('C07', 'SH-1'), ('C08', 'SH-1'), ('C10', 'SH-1')]),
    ('sh1-alias-input-kwargs', [(M, "            kwargs = dict(self.ctx.input_kwargs)", "            kwargs = self.ctx.input_kwargs")], [('C07', 'SH-1')]),
    ('sh1-additional-data-on-graph', [(M, "            self._additional_data[start_from_node_id] = node_result.data", "            self.dag.graph.nodes[start_from_node_id][NodeField.additional_data] = node_result.data\n            self._additional_data[start_from_node_id] = node_result.data")], [('C07', 'SH-1'), ('C08', 'SH-1'), ('C11', 'SH-1')]),
    ('sh2-shared-default-store', [(M, "    _node_storage: DAGNodeStorage = field(default_factory=DAGNodeStorage)", "    _node_storage: DAGNodeStorage = DAGNodeStorage()")], [('C07', 'SH-2'), ('C08', 'SH-2')]),
    ('sh5-cache-on-dag', [(M, "@cachedmethod(lambda self: self._memorization_store,", "@cachedmethod(lambda self: self.dag.__dict__.setdefault('_cache', {}),")], [('C07', 'SH-5'), ('C08', 'SH-5')]),
    ('sh3-global-registry-write', [(M, "        task = asyncio.create_task(coro, name=name)\n        self._coro_tasks.append(task)", "        task = asyncio.create_task(coro, name=name)\n        self._coro_tasks.append(task)\n        _ALL_TASKS.append(task)"),
                                   (M, "_EventDictT = t.Dict[t.Any, asyncio.Event]", "_ALL_TASKS: list = []\n_EventDictT = t.Dict[t.Any, asyncio.Event]")], [('C07', 'SH-3'), ('C08', 'SH-3')]),
    ('lk1-task-not-registered', [(M, "        task = asyncio.create_task(coro, name=name)\n        self._coro_tasks.append(task)\n", "        task = asyncio.create_task(coro, name=name)\n")], [('C13', 'LK-1')]),
    ('lk2-no-finally-stop', [(M, "        finally:\n            self._stop_coro_tasks(*self._coro_tasks)", "        finally:\n            logger.debug('run finished')")], [('C13', 'LK-2')]),
    ('lk2-stop-only-on-error', [(M, "            logger.error('DAG run raised error', exc_info=ex)\n            raise\n        finally:\n            self._stop_coro_tasks(*self._coro_tasks)",
                                  "            logger.error('DAG run raised error', exc_info=ex)\n            self._stop_coro_tasks(*self._coro_tasks)\n            raise")], [('C13', 'LK-2')]),
    ('lk3-stop-breaks-early', [(M, "            if coro_task.done() or coro_task.cancelled():\n                continue", "            if coro_task.done() or coro_task.cancelled():\n                break")], [('C13', 'LK-3')]),
    ('lk4-finally-spawns', [(M, "        finally:\n            self._stop_coro_tasks(*self._coro_tasks)", "        finally:\n            self._stop_coro_tasks(*self._coro_tasks)\n            self._create_task(self.ctx.emit_on_node_complete(node_id=self.dag.output_node, error=None), 'late')")], [('C13', 'LK-4')]),
    ('oo1-no-wait-between-candidates', [(M, "            if not self.__has_subgraph_error(oneof_dag):\n\n", "            if self._node_storage.exists_node_result(subgraph_node_id) and not self.__has_subgraph_error(oneof_dag):\n\n"),
                                        (M, "            await self._lock_manager.wait_for_condition(\n                subgraph_node_id,\n                lambda: (\n                    self.__has_subgraph_error(oneof_dag)  # noqa: B023\n                    or (\n                        # A candidate is allowed to return None, so the presence of the result is checked\n                        self._node_storage.exists_node_result(subgraph_node_id)  # noqa: B023\n                        and not isinstance(\n                            self._node_storage.get_node_result(subgraph_node_id),  # noqa: B023\n                            Recurrent,\n                        )\n                    )\n                ),\n            )\n", "            await asyncio.sleep(0)\n")], [('C10', 'OO-1')]),
    ('oo2-reversed-candidates', [(M, "enumerate(self.dag.graph.nodes[node_id][NodeField.oneof_nodes]):", "enumerate(reversed(self.dag.graph.nodes[node_id][NodeField.oneof_nodes])):")], [('C10', 'OO-2')]),
    ('oo3-candidates-not-flagged', [(B, "self._dag.add_node(node_id, **{NodeField.is_oneof_child: True})", "self._dag.add_node(node_id)")], [('C10', 'OO-3'), ('C15', 'OO-3')]),
    ('oo4-flag-not-inherited', [(M, "                    is_oneof=dag.is_oneof,\n                ),\n            )\n        finally:", "                ),\n            )\n        finally:")], [('C10', 'OO-4')]),
    ('oo5-exhaustion-silent', [(M, "            await self.__raise_exc(\n                OneOfDoesNotHaveResultError(node_id),\n            )", "            logger.debug('no candidate succeeded')")], [('C10', 'OO-5')]),
    ('oo6-gate-dropped', [(M, "            if dag.is_oneof and self.__has_subgraph_error(dag):", "            if dag.is_nested_oneof and dag.is_recurrent:")], [('C10', 'OO-6'), ('C03', 'OO-6')]),
    ('rc1-bound-plus-one', [(M, "        for current_iter in range(max_iterations):", "        for current_iter in range(max_iterations + 1):")], [('C11', 'RC-1')]),
    ('rc2-no-handover', [(M, "            self._additional_data[start_from_node_id] = node_result.data\n", "")], [('C11', 'RC-2')]),
    ('rc4-default-unconditional', [(M, "            if isinstance(node_result, Recurrent) and node.use_default:", "            if isinstance(node_result, Recurrent):")], [('C11', 'RC-4')]),
    ('rc5-builder-bound-literal', [(B, "NodeField.max_iterations: input_mark.max_iterations,", "NodeField.max_iterations: 3,")], [('C11', 'RC-5'), ('C15', 'RC-5')]),
    ('rt1-default-attempts-3', [(R, "return self.node.attempts or 1", "return self.node.attempts or 3")], [('C12', 'RT-1')]),
    ('rt2-catch-base-exception', [(M, "            except Exception:\n                if node.use_default:", "            except BaseException:\n                if node.use_default:")], [('C12', 'RT-2')]),
    ('rt3-default-without-kwargs', [(M, "                    if node.use_default:\n                        return run_node_default(node, **kwargs)\n\n                    raise error", "                    if node.use_default:\n                        return run_node_default(node)\n\n                    raise error")], [('C12', 'RT-3')]),
    ('rt4-no-sleep', [(M, "                await asyncio.sleep(retry_policy.delay)", "                pass")], [('C12', 'RT-4')]),
    ('rt5-counter-from-zero', [(M, "        n_attempts = 1\n", "        n_attempts = 0\n")], [('C12', 'RT-5')]),
    ('rt5-compare-gt', [(M, "                if n_attempts >= retry_policy.attempts:", "                if n_attempts > retry_policy.attempts:")], [('C12', 'RT-5')]),
    ('rt5-increment-twice', [(M, "                n_attempts += 1\n                await asyncio.sleep(retry_policy.delay)", "                n_attempts += 1\n                await asyncio.sleep(retry_policy.delay)\n                n_attempts += 1")], [('C12', 'RT-5')]),
    ('rt5-increment-before-test', [(M, "                if n_attempts >= retry_policy.attempts:\n", "                n_attempts += 1\n                if n_attempts >= retry_policy.attempts:\n"),
                                   (M, "                n_attempts += 1\n                await asyncio.sleep(retry_policy.delay)", "                await asyncio.sleep(retry_policy.delay)")], [('C12', 'RT-5')]),
    ('rt5-count-from-zero', [(M, "        n_attempts = 1\n        while True:", "        for n_attempts in itertools.count():"),
                             (M, "                n_attempts += 1\n                await asyncio.sleep(retry_policy.delay)", "                await asyncio.sleep(retry_policy.delay)"),
                             (M, "import functools\n", "import functools\nimport itertools\n")], [('C12', 'RT-5')]),
    ('rt5-exhaustion-falls-through', [(M, "                    if node.use_default:\n                        return run_node_default(node, **kwargs)\n\n                    raise error\n\n                await self.ctx.emit_on_node_complete",
                                          "                    if node.use_default:\n                        return run_node_default(node, **kwargs)\n\n                await self.ctx.emit_on_node_complete")], [('C12', 'RT-5')]),
    ('rt5-inverted-test', [(M, "                if n_attempts >= retry_policy.attempts:", "                if n_attempts < retry_policy.attempts:")], [('C12', 'RT-5')]),
    ('f25-case-filter-by-truthiness', [(M, "            return EdgeField.case_branch not in self.dag.graph.edges[u, v]\n", "            return not self.dag.graph.edges[u, v].get(EdgeField.case_branch)\n")], [('C09', 'SW-1')]),
    ('f26-unhashable-label-unhandled', [(M, "        try:\n            has_branch = selected_branch_label in branch_nodes\n        except TypeError:\n            # An unhashable label cannot match any case\n            has_branch = False\n", "        has_branch = selected_branch_label in branch_nodes\n")], [('C05', 'ER-5'), ('C09', 'ER-5')]),
    ('f23-additional-data-kept', [(M, "        self._additional_data.pop(start_from_node_id, None)\n", "        pass\n")], [('C11', 'RC-8')]),
    ('f24-forced-default-inside-retry', [(M, "        if force_default:\n            # The default value is not an attempt of the node: it is neither retried nor replaced by itself\n            return run_node_default(node, **kwargs)\n\n        retry_policy = self.dag.retry_policy(node=node)\n", "        retry_policy = self.dag.retry_policy(node=node)\n"),
                                         (M, "        n_attempts = 1\n        while True:\n            try:\n                logger.debug('Start execution node_id=%s', node_id)", "        n_attempts = 1\n        while True:\n            try:\n                if force_default:\n                    return run_node_default(node, **kwargs)\n                logger.debug('Start execution node_id=%s', node_id)")], [('C12', 'RT-7')]),
    ('f27-retry-catches-cancellation', [(M, "                if not isinstance(error, Exception):\n", "                if False:\n")], [('C12', 'RT-2'), ('C13', 'RT-2')]),
    ('f38-stopiteration-through-executor', [(N, "functools.partial(_run_in_executor, run_method, *args, **kwargs),", "functools.partial(run_method, *args, **kwargs),")], [('C02', 'EX-6')]),
    ('ex5-wrapper-drops-kwargs', [(N, "        return run_method(*args, **kwargs)\n    except StopIteration as ex:", "        return run_method(*args)\n    except StopIteration as ex:")], [('C17', 'EX-5')]),
    ('f40-verdict-without-hidden', [(M, "self._node_storage.get_switch_result(pred_node_id, with_hidden=True).node_id,", "self._node_storage.get_switch_result(pred_node_id).node_id,")], [('C03', 'RD-3')]),
    ('f36a-switch-error-not-contained', [(M, "            if dag.is_oneof:\n                # Inside a OneOf subgraph the error is contained like a node failure: the subgraph fails\n                # and the next one can be started.\n                self._node_storage.set_node_result(node_id, ex)\n                await self.__unlock_descendants(node_id)\n                await self.__unlock_itself(dag.dest)\n                return None\n\n", "")], [('C10', 'OO-9')]),
    ('f36a-contained-without-dest-notify', [(M, "                await self.__unlock_descendants(node_id)\n                await self.__unlock_itself(dag.dest)\n                return None\n", "                return None\n")], [('C02', 'WK-c')]),
    ('rt6-default-without-opt-in', [(M, "            except Exception:\n                if node.use_default:\n                    return run_node_default(node, **kwargs)\n\n                raise", "            except Exception:\n                return run_node_default(node, **kwargs)")], [('C12', 'RT-6')]),
    ('ev1-complete-before-run', [(C, "        await ctx.emit_on_pipeline_start()\n", "        await ctx.emit_on_pipeline_start()\n        await ctx.emit_on_pipeline_complete(result=None)\n")], [('C14', 'EV-1')]),
    ('ev1-error-path-no-complete', [(C, "            result = PipelineResult(pipeline_id=pipeline_id, value=None, error=ex)\n            await ctx.emit_on_pipeline_complete(result=result)\n", "            result = PipelineResult(pipeline_id=pipeline_id, value=None, error=ex)\n")], [('C14', 'EV-1')]),
    ('ev2-double-complete', [(M, "                    raise error\n\n                await self.ctx.emit_on_node_complete(node_id=node_id, error=error)", "                    await self.ctx.emit_on_node_complete(node_id=node_id, error=error)\n                    raise error\n\n                await self.ctx.emit_on_node_complete(node_id=node_id, error=error)")], [('C14', 'EV-2')]),
    ('ev2-no-success-complete', [(M, "            await self.ctx.emit_on_node_complete(node_id=node_id, error=None)\n\n", "")], [('C14', 'EV-2')]),
    ('ev3-first-manager-only', [(E, "                await callback(ctx=self, **kwargs)", "                await callback(ctx=self, **kwargs)\n                break")], [('C14', 'EV-3')]),
    ('bd1-mark-not-collected', [(B, "(InputMark, SwitchCaseMark, InputOneOfMark, RecurrentSubGraphMark)", "(InputMark, SwitchCaseMark, InputOneOfMark)")], [('C15', 'BD-1')]),
    ('bd2-kwarg-name-constant', [(B, "get_node_id(input_mark.node), get_node_id(current_node), **{EdgeField.kwarg_name: kwarg_name},", "get_node_id(input_mark.node), get_node_id(current_node), **{EdgeField.kwarg_name: 'x'},")], [('C15', 'BD-2')]),
    ('bd4-input-edge-always', [(B, "            if not input_marks_map and input_node != current_node:", "            if input_node != current_node:")], [('C15', 'BD-4')]),
    ('bd6-no-copy', [(B, "            graph=self._dag.copy(),", "            graph=self._dag,"), (B, "            node_map=copy.deepcopy(self._node_map),", "            node_map=self._node_map,")], [('C15', 'BD-6')]),
    ('vl1-validate-skipped', [(B, "            self.validate_node(current_node)\n\n", "")], [('C16', 'VL-1')]),
    ('vl2-cases-not-visited', [(B, "                        _set_visited(case_node)\n", "")], [('C16', 'VL-2'), ('C15', 'VL-2')]),
    ('vl3-base-class-check-gone', [(B, "        if NodeBase not in inspect.getmro(node):", "        if not inspect.getmro(node):")], [('C16', 'VL-3')]),
    ('vl4-graph-validation-gone', [(B, "        self._validate_graph()\n\n", "")], [('C16', 'VL-4')]),
    ('vl5-generic-input-accepted', [(B, "            if isinstance(annotation, (InputGenericMark, GenericInputMark)):", "            if isinstance(annotation, InputGenericMark):")], [('C16', 'VL-5')]),
    ('ex1-validation-after-manager', [(D, "        self._start_runtime_validation()\n\n        run_manager = self.run_manager(dag=self, ctx=ctx)", "        run_manager = self.run_manager(dag=self, ctx=ctx)")], [('C17', 'EX-1')]),
    ('ex2-tuple-order-swapped', [(B, "        return is_process_pool_needed, is_thread_pool_needed", "        return is_thread_pool_needed, is_process_pool_needed")], [('C17', 'EX-2')]),
    ('ex4-shutdown-ignored', [(TH, "        if not self._pool_executor or self._pool_executor._shutdown or self._pool_executor._broken:", "        if not self._pool_executor:")], [('C17', 'EX-4')]),
    ('ex5-kwargs-dropped-in-executor', [(N, "functools.partial(_run_in_executor, run_method, *args, **kwargs),", "functools.partial(_run_in_executor, run_method, *args),")], [('C17', 'EX-5')]),
    ('fs1-always-binary', [(F, "        mode, encoding = ('wb', None) if serializer.is_binary else ('w', 'utf-8')", "        mode, encoding = ('wb', None)")], [('C18', 'FS-1')]),
    ('fs2-no-rollback', [(F, "            path.unlink(missing_ok=True)\n", "")], [('C18', 'FS-2')]),
    ('fs3-glob-lookup', [(F, "        paths = [directory / f'{node_id}.{fmt.value}' for fmt in DataFormat]\n\n        return [path for path in paths if path.is_file()]", "        return list(directory.glob(f'{node_id}.*'))")], [('C18', 'FS-3')]),
    ('fs4-no-exists-check', [(F, "        if len(self._get_glob(node_id)):\n            raise ArtifactFileAlreadyExists(f'Artifact file for {node_id} already exists')\n\n", "")], [('C18', 'FS-4')]),
    ('as3-saves-other-value', [(M, "            await self.ctx.save_node_result(node_id, result)", "            await self.ctx.save_node_result(node_id, str(result))")], [('C19', 'AS-3')]),
    ('vw1-virtual-nodes-skipped', [(V, "            if node is None:\n                nodes.append(\n                    schema.Node(\n                        id=node_id,\n                        is_virtual=True,\n                        is_generic=False,\n                        type=NodeType.by_prefix(node_id).value,\n                    ),\n                )\n", "            if node is None:\n                continue\n")], [('C20', 'VW-1')]),
    ('vw2-edges-filtered', [(V, "            for source, target in self._dag.graph.edges\n", "            for source, target in self._dag.graph.edges\n            if self._get_node(source) is not None\n")], [('C20', 'VW-2')]),
    ('vw3-writes-dag', [(V, "        for node_id in self._dag.graph.nodes:\n            node = self._get_node(node_id)\n\n            if node is None:\n                node_type = NodeType.by_prefix(node_id).value", "        for node_id in self._dag.graph.nodes:\n            node = self._get_node(node_id)\n            self._dag.graph.nodes[node_id]['seen'] = True\n\n            if node is None:\n                node_type = NodeType.by_prefix(node_id).value")], [('C20', 'VW-3')]),
    ('vw5-prefix-not-a-type', [(B, "switch_node_id = generate_node_id(NodeType.switch.value, input_mark.name)", "switch_node_id = generate_node_id('sw', input_mark.name)")], [('C20', 'VW-5')]),
    ('pb1-await-between-value-and-publish', [(M, "            logger.debug('Save the result \"%s\" for the node %s', result, node_id)\n            self._node_storage.set_node_result(node_id, result)\n\n            # TODO: Needs to reorganize saving policy for artifact storage\n            await self.ctx.save_node_result(node_id, result)",
                                              "            await self.ctx.save_node_result(node_id, result)\n            self._node_storage.set_node_result(node_id, result)")], [('C11', 'PB-1'), ('C03', 'PB-1')]),
    ('rc6-recurrent-dag-from-filtered-view', [(M, "        recurrent_subgraph = get_connected_subgraph(\n            self.dag.graph, start_from_node_id, node_id, is_recurrent=True, is_oneof=dag.is_oneof,\n        )",
                                               "        recurrent_subgraph = self._get_reduced_dag(\n            start_from_node_id, node_id, is_recurrent=True, is_oneof=dag.is_oneof,\n        )")], [('C11', 'RC-6'), ('C03', 'RC-6'), ('C09', 'RC-6')]),
    ('rc7-node-set-ancestors-only', [(G, "    subgraph: DiGraph = dag.subgraph({node_id for path in nx.all_simple_paths(dag, source, dest) for node_id in path})",
                                      "    subgraph: DiGraph = dag.subgraph((nx.ancestors(dag, dest) | {dest}) - nx.ancestors(dag, source))")], [('C04', 'RC-7'), ('C11', 'RC-7')]),
    ('st2-switch-result-sees-hidden', [(S, "    def get_switch_result(self, node_id: NodeId, with_hidden: bool = False) -> t.Any:\n        return self.switch_results.get(node_id, with_hidden)",
                                        "    def get_switch_result(self, node_id: NodeId) -> t.Any:\n        return self.switch_results.get(node_id)")], [('C11', 'ST-2'), ('C09', 'ST-2'), ('C03', 'ST-2')]),
    ('bd5-marks-cached-on-class', [(B, "            inputs.append((name, annotation))\n\n        return inputs", "            inputs.append((name, annotation))\n\n        setattr(node, '__marks__', inputs)\n        return inputs")], [('C15', 'BD-5'), ('C16', 'BD-5')]),
    ('bd7-conditional-registration', [(B, "                    self._recurrent_sub_graphs.append(\n                        (\n                            get_node_id(input_mark.start_node),\n                            get_node_id(input_mark.dest_node),\n                        ),\n                    )",
                                       "                    if input_mark.dest_node not in visited:\n                        self._recurrent_sub_graphs.append((get_node_id(input_mark.start_node), get_node_id(input_mark.dest_node)))")], [('C15', 'BD-7'), ('C16', 'BD-7')]),
    ('bd8-switch-id-from-decider', [(B, "switch_node_id = generate_node_id(NodeType.switch.value, input_mark.name)", "switch_node_id = generate_node_id(NodeType.switch.value, input_mark.name or get_node_id(input_mark.switch))")], [('C15', 'BD-8'), ('C09', 'BD-8')]),
    ('vl6-input-node-preseen', [(B, "        visited = {output_node}\n", "        visited = {output_node, input_node}\n")], [('C16', 'VL-6')]),
    ('as4-save-after-notifications', [(M, "            # TODO: Needs to reorganize saving policy for artifact storage\n            await self.ctx.save_node_result(node_id, result)\n\n        finally:", "        finally:"),
                                      (M, "            if node_id == dag.dest:\n                logger.debug('The node %s is an output node', node_id)\n                await self.__unlock_itself(node_id)\n", "            if node_id == dag.dest:\n                logger.debug('The node %s is an output node', node_id)\n                await self.__unlock_itself(node_id)\n\n        await self.ctx.save_node_result(node_id, result)\n")], [('C19', 'AS-4')]),
    ('ex3-flags-only-for-traversed-dags', [(B, "        self._validate_graph()\n\n        is_process_pool_needed, is_thread_pool_needed = self._is_executor_needed()\n", "        self._validate_graph()\n\n        is_process_pool_needed, is_thread_pool_needed = (False, False) if output_node is input_node else self._is_executor_needed()\n")], [('C17', 'EX-3')]),
    ('er5-store-raw-subscript', [(M, "            return self._node_storage.get_node_result(node_id)\n\n        self._node_storage.set_node_as_processed(node_id)", "            return self._node_storage.node_results[node_id]\n\n        self._node_storage.set_node_as_processed(node_id)")], [('C05', 'ER-5')]),
    ('ev2-complete-after-cancel', [(M, "            await self.ctx.emit_on_node_complete(node_id=node_id, error=None)\n\n            logger.info('Getting the result after the execution, node_id=%s', node_id)\n            return result\n\n        except Exception as ex:", "            logger.info('Getting the result after the execution, node_id=%s', node_id)\n            return result\n\n        except BaseException as ex:")], [('C14', 'EV-2')]),
    ('oo6-gate-scans-subset', [(M, "            if dag.is_oneof and self.__has_subgraph_error(dag):", "            if dag.is_oneof and self.__has_subgraph_error(dag.subgraph(list_node_ids)):")], [('C10', 'OO-6')]),
    ('vw6-partial-enum', [(V, "                node_type = node.node_type.value if isinstance(node.node_type, NodeType) else node.node_type", "                node_type = NodeType(node.node_type).value")], [('C20', 'VW-6')]),
    # ---- guards of the fixes F42 - F51 (DESIGN 9.10): each fix reverted
    ('f42-id-before-class-check', [(B, "        self._check_base_class(node)\n        self._node_map[get_node_id(node)] = node", "        self._node_map[get_node_id(node)] = node")], [('C16', 'VL-8')]),
    ('f42-recurrent-start-unchecked', [(B, "                    self._check_base_class(input_mark.start_node)\n", "")], [('C16', 'VL-8')]),
    ('f42-oneof-ids-before-registration', [(B, "                    for node in input_mark.nodes:\n                        self._add_node_to_map(node)\n\n", "")], [('C16', 'VL-8')]),
    ('f43-single-path-not-validated', [(B, "            self.validate_node(input_node)\n            self._get_input_marks_map(input_node)\n", "")], [('C16', 'VL-9')]),
    ('f43-single-path-no-generic-check', [(B, "            self.validate_node(input_node)\n            self._get_input_marks_map(input_node)\n", "            self.validate_node(input_node)\n")], [('C16', 'VL-9')]),
    ('f44-exempt-by-name', [(B, "            if parameter.kind not in (parameter.VAR_POSITIONAL, parameter.VAR_KEYWORD)\n", "            if name not in ('self', 'args', 'kwargs')\n")], [('C16', 'VL-7')]),
    ('f45-non-async-demands-pool', [(B, "            if NodeTag.non_async in tags:\n                continue\n\n", "")], [('C17', 'EX-7')]),
    ('f46-same-node-empty-graph', [(B, "            self._dag.add_node(get_node_id(output_node))\n", "")], [('C15', 'BD-9')]),
    ('f47-one-level-unwrap', [(V, "        while vars(node).get('__generic_class__') is not None:\n", "        if vars(node).get('__generic_class__') is not None:\n")], [('C20', 'VW-7')]),
    ('f48-wrapper-keeps-own-name', [(N, "    class_method.__name__ = 'process'\n", "")], [('C17', 'BN-1')]),
    ('f49-wrapper-without-doc', [(N, "    class_method.__doc__ = process_method.__doc__\n", "")], [('C20', 'BN-2')]),
    ('f50-registry-is-a-set', [(M, "    _coro_tasks: t.List[asyncio.Task] = field(default_factory=list)", "    _coro_tasks: t.Set[asyncio.Task] = field(default_factory=set)"),
                               (M, "        self._coro_tasks.append(task)", "        self._coro_tasks.add(task)")], [('C07', 'ER-8'), ('C05', 'ER-8')]),
    ('f51-view-renames-root-graph', [(G, "    subgraph.graph = {\n        **dag.graph,\n        'name': f'{source} —> {dest}, rec={is_recurrent}, oneof={is_oneof}, nested_oneof={is_nested_oneof}',\n    }\n",
                                      "    subgraph.name = f'{source} —> {dest}, rec={is_recurrent}, oneof={is_oneof}, nested_oneof={is_nested_oneof}'\n")], [('C07', 'SH-1'), ('C08', 'SH-1')]),
    ('f51-view-attribute-dict-written', [(G, "    subgraph.graph = {\n        **dag.graph,\n        'name': f'{source} —> {dest}, rec={is_recurrent}, oneof={is_oneof}, nested_oneof={is_nested_oneof}',\n    }\n",
                                          "    subgraph.graph['name'] = f'{source} —> {dest}'\n")], [('C07', 'SH-1')]),
    ('bd9-oneof-candidates-reversed', [(B, "                    node_id_list = [get_node_id(node) for node in input_mark.nodes]\n", "                    node_id_list = [get_node_id(node) for node in reversed(input_mark.nodes)]\n")], [('C15', 'BD-9')]),
    ('bd9-implicit-link-for-marked-node', [(B, "            if not input_marks_map and input_node != current_node:", "            if input_node != current_node:")], [('C15', 'BD-9')]),
    ('bd9-recurrent-iterations-dropped', [(B, "                            NodeField.max_iterations: input_mark.max_iterations,\n", "")], [('C15', 'BD-9')]),
    ('bd9-switch-decider-not-visited', [(B, "                    self._add_switch_node(switch_node_id, get_node_id(input_mark.switch))\n                    _set_visited(input_mark.switch)\n", "                    self._add_switch_node(switch_node_id, get_node_id(input_mark.switch))\n")], [('C15', 'BD-9')]),
    ('vl10-valid-recurrent-rejected', [(B, "                if isinstance(input_mark, RecurrentSubGraphMark):\n                    self._check_base_class(input_mark.start_node)\n", "                if isinstance(input_mark, RecurrentSubGraphMark):\n                    self._check_base_class(input_mark.max_iterations)\n")], [('C16', 'VL-10')]),
    # ---- guards of the fixes F65 - F72 (third hunt, DESIGN 9.14): each fix reverted
    ('f65-fixed-policy-class', [(M, "        retry_policy = self.dag.retry_policy(node=node)\n", "        retry_policy = NodeRetryPolicy(node=node)\n"),
                                (M, "from ml_pipeline_engine.node import run_node\n", "from ml_pipeline_engine.node import run_node\nfrom ml_pipeline_engine.node.retrying import NodeRetryPolicy\n")], [('C12', 'RT-8')]),
    ('f66-empty-exceptions-unset', [(R, "        return (Exception,) if self.node.exceptions is None else self.node.exceptions\n", "        return self.node.exceptions or (Exception,)\n")], [('C12', 'RT-1')]),
    ('f67-equality-exit', [(M, "                if n_attempts >= retry_policy.attempts:", "                if n_attempts == retry_policy.attempts:")], [('C12', 'RT-9'), ('C02', 'RT-9')]),
    ('f68-return-annotation-dependency', [(B, "            if name == 'return':\n                # The annotation of the result is not a parameter\n                continue\n\n", "")], [('C15', 'BD-13')]),
    ('f69-inherited-generic-class', [(V, "        while vars(node).get('__generic_class__') is not None:", "        while getattr(node, '__generic_class__', None) is not None:")], [('C20', 'VW-7')]),
    ('f70-source-unavailable', [(V, "        try:\n            line_number = inspect.getsourcelines(node)[-1]\n        except (OSError, TypeError):\n            # The source is not available (a class created dynamically, a byte-code only module)\n            return f'{file_path}.py'\n", "        line_number = inspect.getsourcelines(node)[-1]\n")], [('C20', 'VW-7')]),
    ('f71-build-dag-none', [(B, "    builder._check_base_class(output_node)\n", "")], [('C16', 'VL-8')]),
    ('f72-registry-overwrite', [(N, "    while registry_name in globals():\n        serial += 1\n        registry_name = f'{class_name}_{serial}'\n", "")], [('C07', 'BN-4'), ('C08', 'BN-4'), ('C17', 'BN-4')]),
    ('f73-waiter-sets-event', [(M, "            if is_executor:\n                self.__unlock_execution_lock(node_id)\n\n            await self.__unlock_descendants(node_id)", "            self.__unlock_execution_lock(node_id)\n\n            await self.__unlock_descendants(node_id)")], [('C04', 'ON-7'), ('C14', 'ON-7'), ('C03', 'ON-7')]),
    ('f74-error-tested-by-truthiness', [(M, "                    self._get_first_error_in_tasks(self._coro_tasks) is not None\n", "                    bool(self._get_first_error_in_tasks(self._coro_tasks))\n")], [('C02', 'ER-9'), ('C05', 'ER-9')]),
    ('f74-result-error-tested-by-truthiness', [(M, "        if error is not None:\n            raise error\n", "        if error:\n            raise error\n")], [('C05', 'ER-9')]),
    ('f75-format-from-suffix', [(F, "        serializer = serializer_factory.from_extension(glob[0].name.rsplit('.', 1)[-1])\n", "        serializer = serializer_factory.from_extension(glob[0].suffix[1:])\n")], [('C18', 'FS-7')]),
    ('f76-context-outside-try', [(C, "        try:\n            ctx = dag_ctx.create_context_from_chart(\n                chart=self,\n                pipeline_id=pipeline_id,\n                input_kwargs=input_kwargs,\n                meta=meta if meta is not None else {},\n            )\n\n        except Exception as ex:\n            # The artifact store or an event manager of the chart could not be created: there is nobody to notify\n            return PipelineResult(pipeline_id=pipeline_id, value=None, error=ex)\n",
                                  "        ctx = dag_ctx.create_context_from_chart(\n            chart=self,\n            pipeline_id=pipeline_id,\n            input_kwargs=input_kwargs,\n            meta=meta if meta is not None else {},\n        )\n")], [('C05', 'ER-2')]),
    ('f89-broken-thread-pool-ready', [(TH, " or self._pool_executor._broken:", ":")], [('C17', 'EX-4')]),
    # ---- round 6 of seeded changes (DESIGN 9.16)
    ('sw4-hide-skips-unprocessed', [(S, "        for node_id in node_ids:\n            self.hide_processed_node(node_id)\n",
                                     "        for node_id in node_ids:\n            if not self.exists_processed_node(node_id):\n                continue\n\n            self.hide_processed_node(node_id)\n")],
     [('C09', 'SW-4'), ('C03', 'SW-4')]),
    ('sw4-hide-stops-at-first-unprocessed', [(S, "        for node_id in node_ids:\n            self.hide_processed_node(node_id)\n",
                                              "        for node_id in node_ids:\n            if not self.exists_processed_node(node_id, with_hidden=True):\n                return\n\n            self.hide_processed_node(node_id)\n")],
     [('C09', 'SW-4')]),
    ('oo11-failed-candidate-withdrawn', [(M, "                logger.debug('The %s has been succeeded', oneof_dag)\n                return\n",
                                          "                logger.debug('The %s has been succeeded', oneof_dag)\n                return\n\n            self._started_oneof_children.discard(subgraph_node_id)\n")],
     [('C10', 'OO-11')]),
    ('oo11-registry-cleared-per-oneof', [(M, "                logger.debug('The %s has been succeeded', oneof_dag)\n                return\n",
                                          "                logger.debug('The %s has been succeeded', oneof_dag)\n                self._started_oneof_children.clear()\n                return\n")],
     [('C10', 'OO-11')]),
    ('rc11-release-only-when-exhausted', [(M, "                else:\n                    await self.__raise_exc(error)\n\n        self._node_storage.delete_active_rec_subgraph(start_from_node_id, node_id)\n",
                                           "                else:\n                    await self.__raise_exc(error)\n\n            self._node_storage.delete_active_rec_subgraph(start_from_node_id, node_id)\n")],
     [('C11', 'RC-11'), ('C02', 'RC-11')]),
    ('rc11-release-dropped', [(M, "        self._node_storage.delete_active_rec_subgraph(start_from_node_id, node_id)\n\n        # The data belongs", "        # The data belongs")],
     [('C11', 'RC-11')]),
    ('bn6-serial-only-in-registry', [(N, "    class_name = registry_name\n", ""), (N, "    globals()[class_name] = created_node\n", "    globals()[registry_name] = created_node\n")],
     [('C15', 'BN-6')]),
    ('bn7-annotations-aliased', [(N, "    class_method.__doc__ = process_method.__doc__\n", "    class_method.__doc__ = process_method.__doc__\n    class_method.__annotations__ = process_method.__annotations__\n")],
     [('C16', 'BN-7'), ('C15', 'BN-7')]),
    ('fs9-hidden-leftover-removed', [(F, "                serializer.dump(data, file)\n", "                serializer.dump(data, file)\n\n            path.with_name(f'.{path.name}').unlink(missing_ok=True)\n")],
     [('C18', 'FS-9')]),
    ('fs9-lookup-by-stem', [(F, "        return [path for path in paths if path.is_file()]", "        return [path for path in directory.iterdir() if path.is_file() and path.stem == str(node_id)]")],
     [('C18', 'FS-9')]),
    ('pb1-save-before-publish', [(M, "            logger.debug('Save the result \"%s\" for the node %s', result, node_id)\n            self._node_storage.set_node_result(node_id, result)\n\n            # TODO: Needs to reorganize saving policy for artifact storage\n            await self.ctx.save_node_result(node_id, result)\n",
                                  "            await self.ctx.save_node_result(node_id, result)\n\n            logger.debug('Save the result \"%s\" for the node %s', result, node_id)\n            self._node_storage.set_node_result(node_id, result)\n")],
     [('C02', 'PB-1'), ('C03', 'PB-1')]),
    ('ev3-generator-skips-after-first', [(E, "            if callback:\n                await callback(ctx=self, **kwargs)\n", "            if callback:\n                await callback(ctx=self, **kwargs)\n                break\n")],
     [('C14', 'EV-3')]),
    ('ev3-payload-dropped', [(E, "                await callback(ctx=self, **kwargs)\n", "                await callback(ctx=self)\n")], [('C14', 'EV-3')]),
    ('ev1-complete-gets-a-copy', [(C, "            await ctx.emit_on_pipeline_complete(result=result)\n            return result\n\n        except",
                                   "            await ctx.emit_on_pipeline_complete(result=PipelineResult(value=result.value, pipeline_id=pipeline_id, error=None))\n            return result\n\n        except")],
     [('C14', 'EV-1')]),
    ('er2-error-result-loses-exception', [(C, "            result = PipelineResult(pipeline_id=pipeline_id, value=None, error=ex)\n            await ctx.emit_on_pipeline_complete",
                                           "            result = PipelineResult(pipeline_id=pipeline_id, value=None, error=RuntimeError(str(ex)))\n            await ctx.emit_on_pipeline_complete")],
     [('C05', 'ER-2')]),
    ('vl4-only-first-subgraph-validated', [(B, "        for _, dest in self._recurrent_sub_graphs:\n            node = self._node_map[dest]\n",
                                            "        for _, dest in self._recurrent_sub_graphs[:1]:\n            node = self._node_map[dest]\n")],
     [('C16', 'VL-4')]),
    # ---- round 7 of seeded changes (DESIGN 9.18)
    ('sw3-readiness-reads-hidden-verdict', [(M, "                    predecessors[idx] = self._node_storage.get_switch_result(node_id).node_id", "                    predecessors[idx] = self._node_storage.get_switch_result(node_id, with_hidden=True).node_id")],
     [('C03', 'SW-3'), ('C09', 'SW-3')]),
    ('rc12-case-dag-flagged-recurrent', [(M, "                    (self._node_storage.get_switch_result(node_id)).node_id,\n                    is_oneof=dag.is_oneof,", "                    (self._node_storage.get_switch_result(node_id)).node_id,\n                    is_recurrent=dag.is_recurrent,\n                    is_oneof=dag.is_oneof,")],
     [('C11', 'RC-12'), ('C04', 'RC-12')]),
    ('as7-store-refusal-swallowed', [(CT, "        await self.artifact_store.save(node_id=node_id, data=data)", "        try:\n            await self.artifact_store.save(node_id=node_id, data=data)\n        except Exception:\n            pass")],
     [('C19', 'AS-7')]),
    ('sh10-tasks-found-in-the-loop-registry', [(M, "                self._stop_coro_tasks(*local_tasks)", "                self._stop_coro_tasks(*[t_ for t_ in asyncio.all_tasks() if t_.get_name() in list_node_ids])")],
     [('C08', 'SH-10'), ('C13', 'SH-10')]),
    ('fs10-await-between-test-and-create', [(F, "        path = Path(self._ensure_dir() / f'{node_id}.{fmt.value}')\n\n        try:", "        await __import__('asyncio').sleep(0)\n        path = Path(self._ensure_dir() / f'{node_id}.{fmt.value}')\n\n        try:")],
     [('C18', 'FS-10')]),
    ('oo12-scan-includes-ancestors', [(M, "            self._node_storage.exists_node_error(node_id)\n            for node_id in dag.nodes\n", "            self._node_storage.exists_node_error(node_id)\n            for node_id in set(dag.nodes) | nx.ancestors(self.dag.graph, dag.dest)\n")],
     [('C10', 'OO-12'), ('C05', 'OO-12')]),
    ('oo12-scan-skips-the-destination', [(M, "            self._node_storage.exists_node_error(node_id)\n            for node_id in dag.nodes\n", "            self._node_storage.exists_node_error(node_id)\n            for node_id in dag.nodes if node_id != dag.dest\n")],
     [('C10', 'OO-12')]),
    ('fs2-write-failure-not-rolled-back', [(F, "        except BaseException:\n            # A failed save must not leave a file behind, otherwise the key looks saved\n", "        except (TypeError, ValueError, AttributeError, __import__('pickle').PicklingError):\n            # A failed save must not leave a file behind, otherwise the key looks saved\n")],
     [('C18', 'FS-2')]),
    ('rc7-subgraph-from-descendants-only', [(G, "    subgraph: DiGraph = dag.subgraph({node_id for path in nx.all_simple_paths(dag, source, dest) for node_id in path})", "    subgraph: DiGraph = dag.subgraph(nx.descendants(dag, source) | {source})")],
     [('C11', 'RC-7')]),
    # ---- round 8 of seeded changes / refactoring round 6 (DESIGN 9.19, 9.20)
    ('er11-finished-tasks-pruned', [(M, "        task = asyncio.create_task(coro, name=name)\n", "        self._coro_tasks = [t_ for t_ in self._coro_tasks if not t_.done()]\n        task = asyncio.create_task(coro, name=name)\n")],
     [('C02', 'ER-11'), ('C05', 'ER-11')]),
    ('ex13-wrapper-converts-system-exit', [(N, "    except StopIteration as ex:\n        raise RuntimeError('node raised StopIteration') from ex\n", "    except (StopIteration, SystemExit, KeyboardInterrupt) as ex:\n        raise RuntimeError('node raised StopIteration') from ex\n")],
     [('C12', 'EX-13'), ('C17', 'EX-13')]),
    ('ex13-wrapper-wraps-every-exception', [(N, "    except StopIteration as ex:\n        raise RuntimeError('node raised StopIteration') from ex\n", "    except StopIteration as ex:\n        raise RuntimeError('node raised StopIteration') from ex\n    except Exception as ex:\n        raise RuntimeError(str(ex)) from ex\n")],
     [('C12', 'EX-13')]),
    ('oo4-case-dag-without-oneof-flag', [(M, "                    (self._node_storage.get_switch_result(node_id)).node_id,\n                    is_oneof=dag.is_oneof,\n", "                    (self._node_storage.get_switch_result(node_id)).node_id,\n")],
     [('C05', 'OO-4'), ('C10', 'OO-4')]),
    ('bd7-candidate-flag-only-on-first-visit', [(B, "                        self._dag.add_node(node_id, **{NodeField.is_oneof_child: True})\n", "                        if node_id not in self._dag:\n                            self._dag.add_node(node_id, **{NodeField.is_oneof_child: True})\n")],
     [('C15', 'BD-7')]),
    ('sw6-manager-reads-another-flag', [(M, "            return self.dag.graph.nodes[node_id].get(NodeField.is_switch) is True", "            return self.dag.graph.nodes[node_id].get('switch') is True")],
     [('C09', 'SW-6'), ('C15', 'SW-6')]),
    # ---- round 9 of seeded changes / refactoring round 7 (DESIGN 9.21, 9.22)
    ('cc13-ready-probe-waits-for-a-worker', [(TH, "            raise RuntimeError('Исполнение невозможно без указания пула потоков')\n", "            raise RuntimeError('Исполнение невозможно без указания пула потоков')\n\n        self._pool_executor.submit(int).result()\n")],
     [('C06', 'CC-13'), ('C17', 'CC-13')]),
    ('cc13-sleep-before-dispatch', [(N, "import asyncio\n", "import asyncio\nimport time\n"), (N, "        result = await loop.run_in_executor(", "        time.sleep(0.001)\n        result = await loop.run_in_executor(")],
     [('C06', 'CC-13')]),
    ('ex14-hand-made-bridge', [(N, "        result = await loop.run_in_executor(\n            executor,\n            functools.partial(_run_in_executor, run_method, *args, **kwargs),\n        )\n",
                                "        job = executor.submit(functools.partial(_run_in_executor, run_method, *args, **kwargs))\n        waiter = loop.create_future()\n        job.add_done_callback(lambda j: loop.call_soon_threadsafe(waiter.set_result, j.result()))\n        result = await waiter\n")],
     [('C13', 'EX-14')]),
    ('sw7-decider-registered-as-a-case', [(M, "                selected_branch_label = self._node_storage.get_node_result(pred_id)\n                continue\n", "                selected_branch_label = self._node_storage.get_node_result(pred_id)\n")],
     [('C09', 'SW-7')]),
    ('sw7-unknown-label-takes-the-last-case', [(M, "        if not has_branch:\n            raise SwitchCaseDoesNotHaveBranchError(\n                f'The switch {switch_node_id} does not have a branch for the label {selected_branch_label!r}',\n            )\n",
                                                 "        if not has_branch:\n            selected_branch_label = next(reversed(branch_nodes))\n")],
     [('C09', 'SW-7')]),
    ('vl4-additional-data-of-the-generic-class', [(B, "            if 'additional_data' not in method.__annotations__:\n",
                                                     "            generic = getattr(self._node_map[source], '__generic_class__', None)\n            if 'additional_data' not in method.__annotations__ and (\n                generic is None or 'additional_data' not in get_callable_run_method(generic).__annotations__\n            ):\n")],
     [('C16', 'VL-4')]),
    ('rc4-oneof-before-default', [(M, "            if isinstance(node_result, Recurrent) and node.use_default:\n                logger.debug(\n                    'Attempts to run a recurrent subgraph have been exceeded. '",
                                      "            if isinstance(node_result, Recurrent) and node.use_default and not dag.is_oneof:\n                logger.debug(\n                    'Attempts to run a recurrent subgraph have been exceeded. '")],
     [('C11', 'RC-4')]),
    ('vw7-link-is-a-path-object', [(V, "            return f'{file_path}.py'\n", "            return pathlib.PurePosixPath(f'{file_path}.py')\n")],
     [('C20', 'VW-7')]),
    ('er12-verdict-read-after-cancelling-the-helpers', [(M, "            return self._get_dag_result()\n        except Exception as ex:", "            self._stop_coro_tasks(*self._coro_tasks)\n            await asyncio.sleep(0)\n            return self._get_dag_result()\n        except Exception as ex:")],
     [('C05', 'ER-12')]),
    ('ex5-typeerror-of-the-pool-is-retried', [(N, "        result = await loop.run_in_executor(\n            executor,\n            functools.partial(_run_in_executor, run_method, *args, **kwargs),\n        )\n",
                                                "        try:\n            result = await loop.run_in_executor(\n                executor,\n                functools.partial(_run_in_executor, run_method, *args, **kwargs),\n            )\n        except TypeError:\n            result = await loop.run_in_executor(\n                executor,\n                functools.partial(_run_in_executor, run_method, *args, **kwargs),\n            )\n")],
     [('C04', 'EX-5'), ('C12', 'EX-5')]),
    ('rt7-default-called-again-without-arguments', [(N, "    return get_instance(node).get_default(**kwargs)\n", "    instance = get_instance(node)\n    try:\n        return instance.get_default(**kwargs)\n    except TypeError:\n        return instance.get_default()\n")],
     [('C12', 'RT-7')]),
    ('lk1-oneof-task-not-registered', [(M, "        task = asyncio.create_task(coro, name=name)\n", "        task = asyncio.create_task(coro, name=name)\n        if name.startswith('oneof'):\n            return task\n")],
     [('C14', 'LK-1'), ('C13', 'LK-1')]),
    # ---- round 11 of seeded changes / refactoring round 9 (DESIGN 9.25, 9.26)
    ('sh11-locks-of-all-runs-from-one-module-table', [(M, "        self._lock_manager = DAGConcurrentManagerLock(self.dag.node_map.keys())\n", "        self._lock_manager = DAGConcurrentManagerLock(self.dag.node_map.keys(), event_lock_store=_EVENTS)\n"),
                                                       (M, "@dataclass\nclass DAGConcurrentManagerLock:", "_EVENTS: t.Dict[t.Any, asyncio.Event] = defaultdict(asyncio.Event)\n\n\n@dataclass\nclass DAGConcurrentManagerLock:")],
     [('C08', 'SH-11'), ('C07', 'SH-11')]),
    ('sw8-case-dag-cut-from-the-source-of-the-dag', [(M, "                dag=self._get_reduced_dag(\n                    self.dag.input_node,\n                    (self._node_storage.get_switch_result(node_id)).node_id,", "                dag=self._get_reduced_dag(\n                    dag.source,\n                    (self._node_storage.get_switch_result(node_id)).node_id,")],
     [('C09', 'SW-8')]),
    ('rc1-at-least-one-iteration', [(M, "        for current_iter in range(max_iterations):", "        for current_iter in range(max(max_iterations, 1)):")],
     [('C11', 'RC-1')]),
    ('vl3-message-needs-a-qualname', [(B, "            raise errors.IncorrectTypeClass(f'{node} должен быть классом')", "            raise errors.IncorrectTypeClass(f'{node.__qualname__} должен быть классом')")],
     [('C16', 'VL-3')]),
    # ---- round 12 of seeded changes / refactoring round 10 (DESIGN 9.27, 9.28)
    ('wkn-waiting-request-returns-at-once', [(M, "        try:\n            result = await self._execute_node(\n                force_default=force_default,\n                node_id=node_id,\n                dag=dag,\n            )\n",
                                              "        if not is_executor:\n            await self._execute_node(force_default=force_default, node_id=node_id, dag=dag)\n            return\n\n        try:\n            result = await self._execute_node(\n                force_default=force_default,\n                node_id=node_id,\n                dag=dag,\n            )\n")],
     [('C02', 'WK-n')]),
    ('er13-caught-error-in-an-f-string', [(M, "logger.error('Execution error node_id=%s', node_id, exc_info=ex)", "logger.error(f'Execution error node_id={node_id}: {ex}', exc_info=ex)")],
     [('C05', 'ER-13')]),
    ('bn8-dots-folded-in-every-name', [(N, "    return '__'.join([node_type, node_name])", "    return '__'.join([node_type, node_name]).replace('.', '_')")],
     [('C15', 'BN-8')]),
    ('ex5-stopiteration-converted-by-the-awaiting-side', [(N, "    try:\n        return run_method(*args, **kwargs)\n    except StopIteration as ex:\n        raise RuntimeError('node raised StopIteration') from ex\n", "    return run_method(*args, **kwargs)\n"),
                                                          (N, "        result = await loop.run_in_executor(\n            executor,\n            functools.partial(_run_in_executor, run_method, *args, **kwargs),\n        )\n",
                                                              "        try:\n            result = await loop.run_in_executor(\n                executor,\n                functools.partial(_run_in_executor, run_method, *args, **kwargs),\n            )\n        except StopIteration as ex:\n            raise RuntimeError('node raised StopIteration') from ex\n")],
     [('C17', 'EX-5'), ('C02', 'EX-6')]),
    ('rt6-retryable-by-its-cause', [(M, "            except retry_policy.exceptions as error:  # noqa: PERF203\n", "            except Exception as error:  # noqa: PERF203\n                if not isinstance(error, retry_policy.exceptions) and not isinstance(error.__cause__, retry_policy.exceptions):\n                    if node.use_default:\n                        return run_node_default(node, **kwargs)\n                    raise\n")],
     [('C12', 'RT-6')]),
    # ---- round 13 of seeded changes / refactoring round 11 (DESIGN 9.29, 9.30)
    ('sh12-memo-key-without-the-sub-dag', [(M, "    return hashkey(*args, prefix, **kwargs)", "    return hashkey(args[-1], prefix, **kwargs)")],
     [('C03', 'SH-12')]),
    ('st1-iterator-result-stored-as-a-tuple', [(S, "import typing as t\n", "import typing as t\nfrom collections.abc import Iterator\n"),
                                               (S, "        self.node_results.set(node_id, data)\n", "        if isinstance(data, Iterator):\n            data = tuple(data)\n\n        self.node_results.set(node_id, data)\n")],
     [('C19', 'ST-1')]),
    ('vw8-edge-id-with-word-characters-only', [(SC, "        self.id = f'{self.source}->{self.target}'", "        self.id = f'{self.source}->{self.target}'.replace('.', '_').replace(' ', '_')")],
     [('C20', 'VW-8')]),
    ('fs-loads-served-from-a-cache', [(F, "        with Path(glob[0]).open(mode, encoding=encoding) as file:  # noqa: ASYNC101\n            return serializer.load(file)\n",
                                       "        cache = self.__dict__.setdefault('_loaded', {})\n        if node_id not in cache:\n            with Path(glob[0]).open(mode, encoding=encoding) as file:  # noqa: ASYNC101\n                cache[node_id] = serializer.load(file)\n        return cache[node_id]\n")],
     [('C18', 'FS-9')]),
    # ---- round 14 of seeded changes / refactoring round 12 (DESIGN 9.31, 9.32)
    ('bd17-single-candidate-oneof-is-an-input', [('ml_pipeline_engine/dag_builders/annotation/marks.py', "    return t.cast(t.Any, InputOneOfMark(nodes))", "    if len(nodes) == 1:\n        return t.cast(t.Any, InputMark(nodes[0]))\n    return t.cast(t.Any, InputOneOfMark(nodes))")],
     [('C15', 'BD-17'), ('C10', 'BD-17')]),
    ('bn4-qualname-is-the-requested-name', [(N, "            '__generic_class__': node,\n", "            '__generic_class__': node,\n            '__qualname__': 'asyncio',\n")],
     [('C17', 'BN-4')]),
]

ALL_PROPS = [f'C{n:02d}' for n in range(2, 21)]

# (id, [(file, old, new, replace_all)])
BENIGN: List[Tuple[str, List[Tuple[str, str, str, bool]]]] = [
    ('retry-count-loop', [(M, "        n_attempts = 1\n        while True:", "        for n_attempts in itertools.count(1):", False),
                          (M, "                n_attempts += 1\n                await asyncio.sleep(retry_policy.delay)", "                await asyncio.sleep(retry_policy.delay)", False),
                          (M, "import functools\n", "import functools\nimport itertools\n", False)]),
    ('retry-shifted-counter', [(M, "        n_attempts = 1\n        while True:", "        n_attempts = 0\n        while True:", False),
                               (M, "                if n_attempts >= retry_policy.attempts:\n", "                n_attempts += 1\n                if n_attempts >= retry_policy.attempts:\n", False),
                               (M, "                n_attempts += 1\n                await asyncio.sleep(retry_policy.delay)", "                await asyncio.sleep(retry_policy.delay)", False)]),
    ('retry-attempts-left-test', [(M, "                if n_attempts >= retry_policy.attempts:\n\n                    if node.use_default:\n                        return run_node_default(node, **kwargs)\n\n                    raise error\n\n                await self.ctx.emit_on_node_complete(node_id=node_id, error=error)\n\n                n_attempts += 1\n                await asyncio.sleep(retry_policy.delay)\n",
                                     "                if n_attempts < retry_policy.attempts:\n                    await self.ctx.emit_on_node_complete(node_id=node_id, error=error)\n                    n_attempts += 1\n                    await asyncio.sleep(retry_policy.delay)\n                    continue\n\n                if node.use_default:\n                    return run_node_default(node, **kwargs)\n\n                raise error\n", False)]),
    ('rename-unlock-descendants', [(M, '__unlock_descendants', '__notify_children', True)]),
    ('rename-run-node', [(M, '_run_node', '_run_single_node', True)]),
    ('rename-get-descendants', [(M, '__get_descendants', '__descendants_of', True)]),
    ('rename-has-subgraph-error', [(M, '__has_subgraph_error', '__dag_failed', True)]),
    ('inline-unlock-itself', [(M, 'await self.__unlock_itself(node_id)', 'await self._lock_manager.unlock_condition(node_id)', True)]),
    ('inline-unlock-run', [(M, 'await self.__unlock_run_method()', 'await self._lock_manager.unlock_condition(self._alias_run_method)', True)]),
    ('extra-logging', [(M, "        self._node_storage.set_node_as_processed(node_id)\n", "        logger.debug('about to mark %s', node_id)\n        self._node_storage.set_node_as_processed(node_id)\n", False),
                       (M, "            logger.debug('Save the result \"%s\" for the node %s', result, node_id)\n", "            logger.debug('Save the result \"%s\" for the node %s', result, node_id)\n            logger.info('publishing')\n", False)]),
    ('reorder-oneof-success-notifications', [(M, "                await self.__unlock_itself(node_id)\n                await self.__unlock_descendants(node_id)\n                await self.__unlock_run_method()\n\n                logger.debug('The %s has been succeeded', oneof_dag)",
                                               "                await self.__unlock_run_method()\n                await self.__unlock_descendants(node_id)\n                await self.__unlock_itself(node_id)\n\n                logger.debug('The %s has been succeeded', oneof_dag)", False)]),
    ('return-await-temp-var', [(M, "            return await self._run_dag(\n                dag=self._get_reduced_dag(\n                    self.dag.input_node,\n                    (self._node_storage.get_switch_result(node_id)).node_id,\n                    is_oneof=dag.is_oneof,\n                ),\n            )",
                                 "            reduced = self._get_reduced_dag(\n                self.dag.input_node,\n                (self._node_storage.get_switch_result(node_id)).node_id,\n                is_oneof=dag.is_oneof,\n            )\n            outcome = await self._run_dag(dag=reduced)\n            return outcome", False)]),
    ('descendants-comprehension', [(M, "descendants = list(nx.descendants_at_distance(self.dag.graph, node_id, 1))", "descendants = [n for n in nx.descendants_at_distance(self.dag.graph, node_id, 1)]", False)]),
    ('rename-flag', [(M, 'to_unlock_descendants', 'wake_children', True)]),
    ('swap-dest-comparison', [(M, "            if node_id == dag.dest:", "            if dag.dest == node_id:", False)]),
    ('nested-ifs-first-error', [(M, "            if (\n                coro_task.done()\n                and not coro_task.cancelled()\n                and isinstance(coro_task.exception(), BaseException)\n            ):\n                return coro_task.exception()",
                                  "            if coro_task.done() and not coro_task.cancelled():\n                if isinstance(coro_task.exception(), BaseException):\n                    return coro_task.exception()", False)]),
    ('hiddendict-data-store', [(S, "        self[key] = value", "        self.data[key] = value", False)]),
    ('builder-rename-mark-var', [(B, 'input_mark', 'mark', True)]),
    ('storage-rename-exists', [(S, 'exists_node_result', 'has_node_result', True), (M, 'exists_node_result', 'has_node_result', True)]),
    ('chart-rename-exception-var', [(C, "        except Exception as ex:\n            result = PipelineResult(pipeline_id=pipeline_id, value=None, error=ex)", "        except Exception as error:\n            result = PipelineResult(pipeline_id=pipeline_id, value=None, error=error)", False)]),
    ('stop-tasks-done-only', [(M, "            if coro_task.done() or coro_task.cancelled():\n                continue", "            if coro_task.done():\n                continue", False)]),
    ('attempts-not-less', [(M, "                if n_attempts >= retry_policy.attempts:", "                if not n_attempts < retry_policy.attempts:", False)]),
    ('filesystem-rename-lookup', [(F, '_get_glob', '_find_artifacts', True)]),
    ('manager-rename-storage-field', [(M, '_node_storage', '_results', True)]),
    ('outline-publish', [(M, "            logger.debug('Save the result \"%s\" for the node %s', result, node_id)\n            self._node_storage.set_node_result(node_id, result)\n", "            self._publish(node_id, result)\n", False),
                         (M, "    async def __unlock_itself(self, node_id: NodeId) -> None:", "    def _publish(self, node_id: NodeId, result: t.Any) -> None:\n        logger.debug('Save the result \"%s\" for the node %s', result, node_id)\n        self._node_storage.set_node_result(node_id, result)\n\n    async def __unlock_itself(self, node_id: NodeId) -> None:", False)]),
    ('viewer-rename-loop-var', [(V, "for source, target in self._dag.graph.edges", "for src, dst in self._dag.graph.edges", False), (V, "schema.Edge(source=source, target=target)", "schema.Edge(source=src, target=dst)", False)]),
    ('run-node-rename-result', [(N, "result = ", "outcome = ", True), (N, "    return result", "    return outcome", False)]),
    ('ready-predicate-as-lambda', [(M, "                functools.partial(self._is_ready_to_execute, dag, node_id),", "                lambda: self._is_ready_to_execute(dag, node_id),  # noqa: B023", False)]),
    ('node-order-with-filter', [(M, "        return [\n            node_id for node_id in nx.topological_sort(dag)\n            if (\n                not self._node_storage.exists_processed_node(node_id)\n                if not dag.is_recurrent\n                else True\n            )\n        ]",
                                  "        return list(filter(\n            lambda node_id: dag.is_recurrent or not self._node_storage.exists_processed_node(node_id),\n            nx.topological_sort(dag),\n        ))", False)]),
    ('ensure-future', [(M, "task = asyncio.create_task(coro, name=name)", "task = asyncio.ensure_future(coro)", False)]),
    ('tasks-in-a-dict', [(M, "    _coro_tasks: t.List[asyncio.Task] = field(default_factory=list)", "    _coro_tasks: t.Dict[asyncio.Task, None] = field(default_factory=dict)", False),
                         (M, "        self._coro_tasks.append(task)", "        self._coro_tasks[task] = None", False)]),
    ('switch-notify-without-finally', [(M, "        try:\n            return await self._run_dag(\n                dag=self._get_reduced_dag(\n                    self.dag.input_node,\n                    (self._node_storage.get_switch_result(node_id)).node_id,\n                    is_oneof=dag.is_oneof,\n                ),\n            )\n        finally:\n            # The selected case may have been computed for another consumer already. In that case nothing\n            # is executed here, so the consumers of the switch have to be notified explicitly.\n            await self.__unlock_descendants(node_id)",
                                         "        outcome = await self._run_dag(\n            dag=self._get_reduced_dag(\n                self.dag.input_node,\n                (self._node_storage.get_switch_result(node_id)).node_id,\n                is_oneof=dag.is_oneof,\n            ),\n        )\n        await self.__unlock_descendants(node_id)\n        return outcome", False)]),
    ('storage-exists-via-contains', [(S, "        return key in self\n", "        return self.data.__contains__(key)\n", False)]),
    ('redundant-visited-guard', [(B, "                    _set_visited(input_mark.node)\n", "                    if input_mark.node not in visited:\n                        _set_visited(input_mark.node)\n", False)]),
    ('dag-run-inline-validation', [(D, "        self._start_runtime_validation()\n", "        self._validate_pool_executors()\n", False)]),
    ('view-own-dict-then-name', [(G, "    return subgraph\n", "    subgraph.name = subgraph.graph['name']\n\n    return subgraph\n", False)]),
    ('kinds-via-inspect-parameter', [(B, "            if parameter.kind not in (parameter.VAR_POSITIONAL, parameter.VAR_KEYWORD)\n", "            if parameter.kind not in (inspect.Parameter.VAR_POSITIONAL, inspect.Parameter.VAR_KEYWORD)\n", False)]),
    ('wrapper-attributes-set-after-type', [(N, "    class_method.__name__ = 'process'\n    class_method.__doc__ = process_method.__doc__\n\n", "", False),
                                           (N, "    method = created_node.process\n", "    method = created_node.process\n    method.__name__ = 'process'\n    method.__doc__ = process_method.__doc__\n", False)]),
    ('single-path-validation-outlined', [(B, "            self.validate_node(input_node)\n            self._get_input_marks_map(input_node)\n", "            self._validate_single(input_node)\n", False),
                                         (B, "    def _is_executor_needed(self)", "    def _validate_single(self, node: NodeBase) -> None:\n        self.validate_node(node)\n        self._get_input_marks_map(node)\n\n    def _is_executor_needed(self)", False)]),
    ('class-check-at-call-sites', [(B, "        self._check_base_class(node)\n        self._node_map[get_node_id(node)] = node", "        self.__register(node)", False),
                                   (B, "    def _add_node_pair_to_dag(self", "    def __register(self, node: NodeBase) -> None:\n        self._check_base_class(node)\n        node_id = get_node_id(node)\n        self._node_map[node_id] = node\n\n    def _add_node_pair_to_dag(self", False)]),
    ('class-check-inlined-in-registration', [(B, "        self._check_base_class(node)\n        self._node_map[get_node_id(node)] = node", "        if not inspect.isclass(node):\n            raise errors.IncorrectTypeClass(f'{node} должен быть классом')\n        self._check_base_class(node)\n        self._node_map[get_node_id(node)] = node", False)]),
    ('registry-deque', [(M, "    _coro_tasks: t.List[asyncio.Task] = field(default_factory=list)", "    _coro_tasks: t.Deque[asyncio.Task] = field(default_factory=deque)", False),
                        (M, "import asyncio\n", "import asyncio\nfrom collections import deque\n", False)]),
    ('unwrap-generic-chain-recursively', [(V, "        while vars(node).get('__generic_class__') is not None:\n            node = node.__generic_class__\n\n        file_path", "        generic_class = vars(node).get('__generic_class__')\n        if generic_class is not None:\n            return GraphConfigImpl._get_node_relative_path(generic_class)\n\n        file_path", False)]),
    # ---- round 6
    ('rc11-release-after-handover-cleanup', [(M, "        self._node_storage.delete_active_rec_subgraph(start_from_node_id, node_id)\n\n        # The data belongs to the subgraph that has just been finished. If the start node is executed again\n        # (an outer subgraph re-iterates), it must not get the data of the previous execution.\n        self._additional_data.pop(start_from_node_id, None)\n",
                                              "        # The data belongs to the subgraph that has just been finished. If the start node is executed again\n        # (an outer subgraph re-iterates), it must not get the data of the previous execution.\n        self._additional_data.pop(start_from_node_id, None)\n\n        self.__release_rec_subgraph(start_from_node_id, node_id)\n\n    def __release_rec_subgraph(self, start_from_node_id: NodeId, node_id: NodeId) -> None:\n        self._node_storage.delete_active_rec_subgraph(start_from_node_id, node_id)\n", False)]),
    ('fs9-scratch-name-with-tmp-suffix', [(F, "        try:\n            with path.open(mode, encoding=encoding) as file:  # noqa: ASYNC101\n                serializer.dump(data, file)\n        except BaseException:\n            # A failed save must not leave a file behind, otherwise the key looks saved\n            path.unlink(missing_ok=True)\n            raise\n",
                                           "        partial = path.with_name(f'{path.name}.tmp')\n\n        try:\n            with partial.open(mode, encoding=encoding) as file:  # noqa: ASYNC101\n                serializer.dump(data, file)\n\n            partial.replace(path)\n        except BaseException:\n            # A failed save must not leave a file behind, otherwise the key looks saved\n            partial.unlink(missing_ok=True)\n            raise\n", False)]),
    ('oo11-registry-read-only-helper', [(M, "                u in self._started_oneof_children\n", "                u in frozenset(self._started_oneof_children)\n", False)]),
    ('sw4-hide-via-loop-over-stores', [(S, "            self.hide_processed_node(node_id)\n            self.hide_node_result(node_id)\n            self.hide_switch_result(node_id)\n",
                                        "            for store in (self.processed_nodes, self.node_results, self.switch_results):\n                store.hide(node_id)\n", False)]),
    ('bn7-annotations-copied', [(N, "    class_method.__doc__ = process_method.__doc__\n", "    class_method.__doc__ = process_method.__doc__\n    class_method.__annotations__ = dict(getattr(process_method, '__annotations__', {}))\n", False)]),
    # ---- round 7
    ('oo12-scan-over-a-list-of-the-nodes', [(M, "            for node_id in dag.nodes\n        ])", "            for node_id in list(dag.nodes)\n        ])", False)]),
    ('rc12-case-dag-explicitly-not-recurrent', [(M, "                    (self._node_storage.get_switch_result(node_id)).node_id,\n                    is_oneof=dag.is_oneof,", "                    (self._node_storage.get_switch_result(node_id)).node_id,\n                    is_recurrent=False,\n                    is_oneof=dag.is_oneof,", False)]),
    ('as7-store-error-logged-and-reraised', [(CT, "        await self.artifact_store.save(node_id=node_id, data=data)", "        try:\n            await self.artifact_store.save(node_id=node_id, data=data)\n        except Exception:\n            import logging\n            logging.getLogger(__name__).debug('the artifact store refused %s', node_id)\n            raise", False)]),
    ('hidden-set-renamed', [(S, "_hidden_keys", "_concealed", True)]),
    # ---- round 9
    ('ex14-wrap-future-of-submit', [(N, "        result = await loop.run_in_executor(\n            executor,\n            functools.partial(_run_in_executor, run_method, *args, **kwargs),\n        )\n",
                                     "        result = await asyncio.wrap_future(\n            executor.submit(functools.partial(_run_in_executor, run_method, *args, **kwargs)),\n            loop=loop,\n        )\n", False)]),
    ('sw7-edges-read-with-data', [(M, "        for pred_id in self.dag.graph.predecessors(switch_node_id):\n            edge = self.dag.graph.edges[(pred_id, switch_node_id)]\n\n            if edge.get(EdgeField.is_switch):",
                                      "        for pred_id, _, edge in self.dag.graph.in_edges(switch_node_id, data=True):\n            if edge.get(EdgeField.is_switch):", False)]),
    ('cc13-probe-awaited', [(TH, "class PoolExecutorRegistry(BasePoolExecutorRegistry):\n", "class PoolExecutorRegistry(BasePoolExecutorRegistry):\n\n    async def probe(self) -> None:\n        import asyncio\n        await asyncio.wrap_future(self._pool_executor.submit(int))\n", False)]),
    ('hidden-set-on-instance-via-helper', [(S, "        self._hidden_keys: set = set()\n", "        self._hidden_keys: set = self._no_keys()\n\n    @staticmethod\n    def _no_keys() -> set:\n        return set()\n", False)]),
    ('er12-verdict-kept-in-a-local-then-cancel', [(M, "            return self._get_dag_result()\n        except Exception as ex:", "            result = self._get_dag_result()\n            self._stop_coro_tasks(*self._coro_tasks)\n            return result\n        except Exception as ex:", False)]),
    ('ev-event-name-as-module-constant', [(E, "class EventSourceMixin:", "_ON_NODE_START = 'on_node_start'\n\n\nclass EventSourceMixin:", False),
                                          (E, "await self._emit('on_node_start', node_id=node_id)", "await self._emit(_ON_NODE_START, node_id=node_id)", False)]),
    ('ex5-pool-hand-over-in-a-helper', [(N, "        result = await loop.run_in_executor(\n            executor,\n            functools.partial(_run_in_executor, run_method, *args, **kwargs),\n        )\n",
                                         "        result = await _hand_over(loop, executor, run_method, args, kwargs)\n", False),
                                        (N, "async def run_node(", "def _hand_over(loop, executor, run_method, args, kwargs):  # noqa: ANN001, ANN202\n    return loop.run_in_executor(executor, functools.partial(_run_in_executor, run_method, *args, **kwargs))\n\n\nasync def run_node(", False)]),
    # ---- round 11 / refactoring round 9
    ('on1-concealed-test-in-a-helper', [(S, "    def get(self, key: t.Any, with_hidden: bool = True) -> t.Any:", "    def _is_concealed(self, key: t.Any, with_hidden: bool) -> bool:\n        if with_hidden is not False:\n            return False\n\n        return key in self._hidden_keys\n\n    def get(self, key: t.Any, with_hidden: bool = True) -> t.Any:", False),
                                        (S, "        if with_hidden is False and key in self._hidden_keys:\n            return False\n\n        return key in self\n", "        return not self._is_concealed(key, with_hidden) and key in self\n", False)]),
    ('sh5-cache-store-through-attrgetter', [(M, "import functools\n", "import functools\nimport operator\n", False),
                                            (M, "    @cachedmethod(lambda self: self._memorization_store, key=", "    @cachedmethod(operator.attrgetter('_memorization_store'), key=", False)]),
    ('rc1-while-loop-with-a-counter', [(M, "        for current_iter in range(max_iterations):\n", "        for current_iter in range(0, max_iterations, 1):\n", False)]),
    # ---- round 12 / refactoring round 10
    ('launch-loop-index-driven-while', [(M, "        for node_id in list_node_ids:\n\n            await self._lock_manager.wait_for_condition(", "        position = 0\n        while position < len(list_node_ids):\n            node_id = list_node_ids[position]\n            position += 1\n\n            await self._lock_manager.wait_for_condition(", False)]),
    ('cancel-loop-over-the-pending-tasks', [(M, "        for coro_task in coro_tasks:\n\n            if coro_task.done() or coro_task.cancelled():\n                continue\n\n            coro_task.cancel()\n            logger.debug('Task %s has been cancelled', coro_task.get_name())\n",
                                             "        for coro_task in [task for task in coro_tasks if not task.done()]:\n            coro_task.cancel()\n            logger.debug('Task %s has been cancelled', coro_task.get_name())\n", False)]),
    # ---- refactoring round 12
    ('sw4-rearm-through-a-tuple-of-bound-hiders', [(S, "            self.hide_processed_node(node_id)\n            self.hide_node_result(node_id)\n            self.hide_switch_result(node_id)\n",
                                                    "            for hide in (self.hide_processed_node, self.hide_node_result, self.hide_switch_result):\n                hide(node_id)\n", False)]),
]


# Repaired variants for rules whose instance on today's tree is a recorded finding: after the edit (a sketch of a
# repair - enough to restore the structural condition, not a reviewed fix) the named rule must hold on the named construct.
REPAIRS: List[Tuple[str, List[Tuple[str, str, str]], List[Tuple[str, str, str]]]] = [
    ('repair-on5-unmark-on-cancel', [(M, "            # TODO: Needs to reorganize saving policy for artifact storage\n            await self.ctx.save_node_result(node_id, result)\n\n        finally:",
                                     "            # TODO: Needs to reorganize saving policy for artifact storage\n            await self.ctx.save_node_result(node_id, result)\n\n        except asyncio.CancelledError:\n            self._node_storage.processed_nodes.delete(node_id)\n            raise\n\n        finally:")],
     [('C04', 'ON-5', '_run_node::')]),
    ('repair-rd8-error-test', [(M, "            await self._lock_manager.wait_for_event(node_id)\n\n            return self._node_storage.get_node_result(node_id)",
                               "            await self._lock_manager.wait_for_event(node_id)\n\n            if not dag.is_oneof and self._node_storage.exists_node_error(node_id):\n                raise self._node_storage.get_node_result(node_id)\n\n            return self._node_storage.get_node_result(node_id)")],
     [('C05', 'RD-8', 'second requester')]),
    ('repair-rc9-publish-error', [(M, "                logger.debug('The subgraph should be stopped. There is an error in %s', name)\n                return",
                                  "                logger.debug('The subgraph should be stopped. There is an error in %s', name)\n                self._node_storage.set_node_result(node_id, RecurrentSubgraphDoesNotHaveResultError(dict(node_id=node_id)))\n                await self.__unlock_itself(node_id)\n                await self.__unlock_descendants(node_id)\n                return")],
     [('C11', 'RC-9', 'error exit')]),
    ('repair-ev6-isolate-managers', [(E, "            if callback:\n                await callback(ctx=self, **kwargs)", "            if callback:\n                try:\n                    await callback(ctx=self, **kwargs)\n                except Exception:  # noqa: BLE001\n                    pass")],
     [('C14', 'EV-6', 'raising event manager')]),
    ('repair-cc8-own-edges', [(M, "        node_predecessors = set(self.dag.graph.predecessors(node_id))", "        node_predecessors = set(dag.predecessors(node_id))")],
     [('C09', 'CC-8', 'dependencies inside a sub-dag')]),
    ('repair-lk8-consult-cancelling', [(M, "                await self.ctx.emit_on_node_complete(node_id=node_id, error=error)\n\n                n_attempts += 1",
                                       "                if asyncio.current_task().cancelling():\n                    raise error\n\n                await self.ctx.emit_on_node_complete(node_id=node_id, error=error)\n\n                n_attempts += 1")],
     [('C13', 'LK-8', 'no new attempt')]),
    ('repair-er7-record-cancelled', [(M, "            coro_task.cancel()\n            logger.debug('Task %s has been cancelled', coro_task.get_name())",
                                     "            coro_task.cancel()\n            _ENGINE_CANCELLED.registry.add(coro_task)\n            logger.debug('Task %s has been cancelled', coro_task.get_name())")],
     [('C05', 'ER-7', 'ended cancelled')]),
    # ---- second hunt batch (DESIGN 9.10): a repaired variant for every recorded finding that has one
    ('repair-bd10-reject-id-collision', [(B, "        self._check_base_class(node)\n        self._node_map[get_node_id(node)] = node",
                                          "        self._check_base_class(node)\n        if self._node_map.get(get_node_id(node), node) is not node:\n            raise ValueError(f'two node classes share the id {get_node_id(node)}')\n        self._node_map[get_node_id(node)] = node")],
     [('C15', 'BD-10', 'node-id-collision')]),
    ('repair-bd11-reject-switch-name-collision', [(B, "                    self._add_node_to_map(input_mark.switch)\n                    self._add_switch_node(",
                                                   "                    self._add_node_to_map(input_mark.switch)\n                    if switch_node_id in self._dag and get_node_id(input_mark.switch) not in self._dag.predecessors(switch_node_id):\n                        raise ValueError(f'two switches are called {input_mark.name}')\n                    self._add_switch_node(")],
     [('C15', 'BD-11', 'switch-name-collision')]),
    ('repair-bd12-reject-string-annotation', [(B, "            if not isinstance(annotation, (InputMark, SwitchCaseMark, InputOneOfMark, RecurrentSubGraphMark)):\n                continue",
                                               "            if isinstance(annotation, str):\n                raise errors.UndefinedParamAnnotation(f'string annotation {name}')\n\n            if not isinstance(annotation, (InputMark, SwitchCaseMark, InputOneOfMark, RecurrentSubGraphMark)):\n                continue")],
     [('C16', 'BD-12', 'string-annotation')]),
    ('repair-bn3-wrapper-annotations', [(N, "    class_method.__name__ = 'process'\n", "    class_method.__name__ = 'process'\n    class_method.__annotations__ = dict(process_method.__annotations__)\n")],
     [('C15', 'BN-3', 'wrapper-annotations')]),
    ('repair-vw8-structured-edge-id', [(SC, "        self.id = f'{self.source}->{self.target}'", "        self.id = json.dumps([self.source, self.target])"),
                                       (SC, "from dataclasses import asdict\n", "import json\nfrom dataclasses import asdict\n")],
     [('C20', 'VW-8', 'edge-id-injective')]),
    ('repair-ex8-copy-context', [(N, "        result = await loop.run_in_executor(\n            executor,\n            functools.partial(_run_in_executor, run_method, *args, **kwargs),\n        )",
                                  "        context = contextvars.copy_context()\n        result = await loop.run_in_executor(\n            executor,\n            functools.partial(context.run, _run_in_executor, run_method, *args, **kwargs),\n        )"),
                                 (N, "import asyncio\n", "import asyncio\nimport contextvars\n")],
     [('C17', 'EX-8', 'context-copied')]),
    ('repair-ex9-replace-dead-pool', [(PB, "        if self._pool_executor:\n            logger.info(", "        if self._pool_executor:\n            try:\n                self.is_ready()\n            except RuntimeError:\n                self._pool_executor = None\n\n        if self._pool_executor:\n            logger.info(")],
     [('C07', 'EX-9', 'pool-replaceable')]),
    ('repair-ex10-forkserver', [(PP, "get_context('fork')", "get_context('forkserver')")], [('C08', 'EX-10', 'start-method')]),
    ('repair-fs6-quote-key-parts', [(F, "        paths = [directory / f'{node_id}.{fmt.value}' for fmt in DataFormat]", "        paths = [directory / f'{quote(node_id, safe=\"\")}.{fmt.value}' for fmt in DataFormat]"),
                                    (F, "        path = Path(self._ensure_dir() / f'{node_id}.{fmt.value}')", "        path = Path(self._ensure_dir() / f'{quote(node_id, safe=\"\")}.{fmt.value}')"),
                                    (F, "        path = Path(self.artifact_dir / model_name / str(self.ctx.pipeline_id))", "        path = Path(self.artifact_dir / quote(model_name, safe='') / quote(str(self.ctx.pipeline_id), safe=''))"),
                                    (F, "from pathlib import Path\n", "from pathlib import Path\nfrom urllib.parse import quote\n")],
     [('C18', 'FS-6', 'one-component')]),
    ('repair-as5-shield-save', [(M, "            await self.ctx.save_node_result(node_id, result)\n\n        finally:", "            await asyncio.shield(self.ctx.save_node_result(node_id, result))\n\n        finally:")],
     [('C19', 'AS-5', 'save not cancellable')]),
    ('repair-cc9-ancestors-descendants', [(G, "    subgraph: DiGraph = dag.subgraph({node_id for path in nx.all_simple_paths(dag, source, dest) for node_id in path})",
                                           "    subgraph: DiGraph = dag.subgraph((nx.descendants(dag, source) | {source}) & (nx.ancestors(dag, dest) | {dest}))")],
     [('C06', 'CC-9', 'path enumeration')]),
    # ---- third hunt (DESIGN 9.14)
    ('repair-er10-done-callback', [(M, "        task = asyncio.create_task(coro, name=name)\n", "        task = asyncio.create_task(coro, name=name)\n        task.add_done_callback(self._wake_run_when_failed)\n"),
                                   (M, "    async def run(self) -> NodeResultT:", "    def _wake_run_when_failed(self, task: asyncio.Task) -> None:\n        if not task.cancelled() and task.exception() is not None:\n            asyncio.ensure_future(self._lock_manager.unlock_condition(self._alias_run_method))\n\n    async def run(self) -> NodeResultT:")],
     [('C02', 'ER-10', 'dead task wakes run')]),
    ('repair-vl11-start-node-validated', [(B, "            method = get_callable_run_method(self._node_map[source])\n", "            if source not in self._node_map or dest not in nx.descendants(self._dag, source):\n                raise errors.IncorrectParamsRecurrentNode(f'{source} is not an ancestor of {dest}')\n\n            method = get_callable_run_method(self._node_map[source])\n"),
                                          (B, "import typing as t\n", "import typing as t\n\nimport networkx as nx\n")],
     [('C16', 'VL-11', 'recurrent start')]),
    ('repair-rc10-handover-per-subgraph', [(M, "            self._additional_data[start_from_node_id] = node_result.data", "            self._additional_data[(start_from_node_id, node_id)] = node_result.data")],
     [('C11', 'RC-10', 'hand-over keyed by the subgraph')]),
    ('repair-bd14-conflicting-recurrent-declarations', [(B, "                    self._check_base_class(input_mark.start_node)\n                    self._add_node_to_map(input_mark.dest_node)\n",
                                                         "                    self._check_base_class(input_mark.start_node)\n                    self._add_node_to_map(input_mark.dest_node)\n                    declared = self._dag.nodes.get(get_node_id(input_mark.dest_node), {})\n                    if declared.get(NodeField.start_node, get_node_id(input_mark.start_node)) != get_node_id(input_mark.start_node):\n                        raise ValueError('conflicting recurrent declarations')\n")],
     [('C15', 'BD-14', 'recurrent settings per declaration')]),
    ('repair-bd16-input-node-without-marks', [(B, "        self._add_node_to_map(input_node)\n\n        if output_node is None:", "        self._add_node_to_map(input_node)\n\n        if output_node is not None and self._get_input_marks_map(input_node):\n            raise ValueError('the input node must not have dependencies of its own')\n\n        if output_node is None:")],
     [('C15', 'BD-16', 'acyclic')]),
    ('repair-ev7-complete-on-every-exit', [(C, "        except Exception as ex:\n            result = PipelineResult(pipeline_id=pipeline_id, value=None, error=ex)\n            await ctx.emit_on_pipeline_complete(result=result)\n\n            return result",
                                            "        except Exception as ex:\n            result = PipelineResult(pipeline_id=pipeline_id, value=None, error=ex)\n            await ctx.emit_on_pipeline_complete(result=result)\n\n            return result\n\n        except BaseException as ex:\n            await ctx.emit_on_pipeline_complete(result=PipelineResult(pipeline_id=pipeline_id, value=None, error=ex))\n            raise")],
     [('C14', 'EV-7', 'complete on every exit')]),
    ('repair-fs8-exclusive-atomic-save', [(F, "import functools\n", "import functools\nimport os\n"), (F, "        mode, encoding = ('wb', None) if serializer.is_binary else ('w', 'utf-8')\n\n        path = Path(self._ensure_dir() / f'{node_id}.{fmt.value}')\n",
                                           "        mode, encoding = ('wb', None) if serializer.is_binary else ('w', 'utf-8')\n\n        final_path = Path(self._ensure_dir() / f'{node_id}.{fmt.value}')\n        path = final_path.with_name(final_path.name + '.tmp')\n"),
                                          (F, "            path.unlink(missing_ok=True)\n            raise\n", "            path.unlink(missing_ok=True)\n            raise\n\n        try:\n            os.link(path, final_path)\n        finally:\n            path.unlink(missing_ok=True)\n")],
     [('C18', 'FS-8', 'exclusive create'), ('C18', 'FS-8', 'atomic publish')]),
    ('repair-bn5-default-wrapper', [(N, "            '__generic_class__': node,\n", "            '__generic_class__': node,\n            'get_default': lambda self, **kwargs: node.get_default(self, **kwargs, **(dependencies_default or {})),\n")],
     [('C12', 'BN-5', 'default kwargs')]),
    ('repair-vl12-stub-is-not-a-run-method', [(N, "    if not callable(getattr(node, 'process', None)):\n        raise RunMethodExpectedError('Missing method for node execution')\n\n    node = get_instance(node)",
                                               "    if not callable(getattr(node, 'process', None)) or getattr(node.process, '__qualname__', '').startswith('ProcessorBase.'):\n        raise RunMethodExpectedError('Missing method for node execution')\n\n    node = get_instance(node)")],
     [('C16', 'VL-12', 'stub is not a run method')]),
]


def _copy_tree(repo: str, dst: str) -> None:
    for pkg in ('ml_pipeline_engine', 'ml_pipeline_viewer'):
        shutil.copytree(os.path.join(repo, pkg), os.path.join(dst, pkg),
                        ignore=shutil.ignore_patterns('__pycache__', 'node_modules', 'src', '*.js', '*.json', '*.html', '*.css', '*.map'))


def _apply(dst: str, edits) -> Optional[str]:
    """Apply edits; returns None if applied, or the reason the edit is not applicable."""
    for e in edits:
        rel, old, new = e[0], e[1], e[2]
        replace_all = e[3] if len(e) > 3 else False
        path = os.path.join(dst, rel)
        if not os.path.exists(path):
            return f'{rel} missing'
        with open(path, encoding='utf-8') as fh:
            s = fh.read()
        if old not in s:
            return f'anchor not found in {rel}'
        s = s.replace(old, new) if replace_all else s.replace(old, new, 1)
        try:
            ast.parse(s)
        except SyntaxError as ex:
            return f'edit does not parse: {ex}'
        with open(path, 'w', encoding='utf-8') as fh:
            fh.write(s)
    return None


def _run_one(args) -> dict:
    kind, mid, edits, props, repo = args
    import sys
    verif = os.path.dirname(os.path.dirname(os.path.abspath(__file__)))
    sys.path.insert(0, verif)
    sys.path.insert(0, os.path.join(verif, 'bin'))
    tmp = tempfile.mkdtemp(prefix='sa_selftest_')
    try:
        _copy_tree(repo, tmp)
        na = _apply(tmp, edits)
        if na is not None:
            return {'kind': kind, 'id': mid, 'status': 'not-applicable', 'why': na}
        import check as chk
        from sa.program import AnalysisError
        from sa.report import known_index, load_known
        known = known_index(load_known())
        out = {'kind': kind, 'id': mid, 'status': 'ok', 'results': {}}
        import signal

        def _too_long(signum, frame):
            raise TimeoutError('the check did not finish within 600 s')
        signal.signal(signal.SIGALRM, _too_long)
        for pid in props:
            try:
                signal.alarm(600)
                try:
                    ctx, coll, instances = chk.run_property(pid, 'quick', tmp)
                finally:
                    signal.alarm(0)
            except AnalysisError as ex:
                out['results'][pid] = {'undecided': str(ex)[:300]}
                continue
            except Exception as ex:  # pragma: no cover
                out['results'][pid] = {'undecided': f'crash {type(ex).__name__}: {ex}'[:300]}
                continue
            # a known finding whose construct key moved because the enclosing function / variable was renamed is
            # the same recorded defect, not a new alarm: matched by (property, rule, trailing [tag] or '=>' part)
            def tag(c):
                if '[' in c and c.rstrip().endswith(']'):
                    return c[c.rindex('['):]
                return c.split('::')[-1].split('=>')[-1][-40:]
            known_tags = {(k[0], k[1], tag(k[2])) for k in known}
            new = [(i.rule, i.construct) for i in instances if i.verdict == 'VIOLATION' and (pid, i.rule, i.construct) not in known
                   and (kind != 'benign' or (pid, i.rule, tag(i.construct)) not in known_tags)]
            out['results'][pid] = {'violations': new}
            if kind == 'repair':
                out['results'][pid]['instances'] = [(i.rule, i.construct, i.verdict) for i in instances]
        return out
    finally:
        shutil.rmtree(tmp, ignore_errors=True)


def run(repo: str, props: Optional[List[str]] = None, jobs: int = 16, only: Optional[List[str]] = None) -> dict:
    """Run the corpus.  `props`: restrict mutants to those expecting one of these properties and check
    benign twins against these properties only."""
    tasks = []
    for mid, edits, expect in MUTANTS:
        if only and mid not in only:
            continue
        ps = sorted({p for p, r in expect if props is None or p in props})
        if not ps:
            continue
        tasks.append(('mutant', mid, edits, ps, repo))
    for bid, edits in BENIGN:
        if only and bid not in only:
            continue
        tasks.append(('benign', bid, edits, props or ALL_PROPS, repo))
    for rid, edits, expect in REPAIRS:
        if only and rid not in only:
            continue
        ps = sorted({p for p, r, c in expect if props is None or p in props})
        if ps:
            tasks.append(('repair', rid, edits, ps, repo))
    with ProcessPoolExecutor(max_workers=jobs) as ex:
        results = list(ex.map(_run_one, tasks))
    expect_of = {mid: expect for mid, edits, expect in MUTANTS}
    summary = {'mutants': 0, 'detected': 0, 'missed': [], 'benign': 0, 'silent': 0, 'false_alarms': [], 'undecided': [],
               'not_applicable': []}
    for r in results:
        if r['status'] == 'not-applicable':
            summary['not_applicable'].append(f"{r['id']}: {r['why']}")
            continue
        if r['kind'] == 'repair':
            exp = next(e for rid, ed, e in REPAIRS if rid == r['id'])
            for p_, rule, sub in exp:
                if props is not None and p_ not in props:
                    continue
                summary['repairs'] = summary.get('repairs', 0) + 1
                res = r['results'].get(p_, {})
                if 'undecided' in res:
                    summary['undecided'].append(f"{r['id']} [{p_}]: {res['undecided']}")
                    continue
                inst = [x for x in res.get('instances', []) if x[0] == rule and sub in x[1]]
                if inst and all(x[2] == 'PASS' for x in inst):
                    summary['repairs_recognised'] = summary.get('repairs_recognised', 0) + 1
                else:
                    summary.setdefault('repairs_not_recognised', []).append(f"{r['id']} [{p_} {rule}]: {[x[2] for x in inst] or 'no instance'}")
            continue
        if r['kind'] == 'mutant':
            for p_, rule in expect_of[r['id']]:
                if props is not None and p_ not in props:
                    continue
                summary['mutants'] += 1
                res = r['results'].get(p_, {})
                if 'undecided' in res:
                    summary['undecided'].append(f"{r['id']} [{p_}]: {res['undecided']}")
                    continue
                if any(rr == rule for rr, c in res.get('violations', [])):
                    summary['detected'] += 1
                elif res.get('violations'):
                    summary['detected'] += 1       # caught, by another rule of the property
                    summary.setdefault('detected_by_other_rule', []).append(f"{r['id']} [{p_}] expected {rule}, got {sorted({x for x, _ in res['violations']})}")
                else:
                    summary['missed'].append(f"{r['id']} [{p_} {rule}]")
        else:
            summary['benign'] += 1
            bad = False
            for p_, res in r['results'].items():
                if 'undecided' in res:
                    summary['undecided'].append(f"benign {r['id']} [{p_}]: {res['undecided']}")
                    bad = True
                elif res.get('violations'):
                    summary['false_alarms'].append(f"{r['id']} [{p_}]: {res['violations'][:2]}")
                    bad = True
            if not bad:
                summary['silent'] += 1
    return summary


if __name__ == '__main__':
    import json
    import sys
    repo = sys.argv[1] if len(sys.argv) > 1 else '/repo'
    only = sys.argv[2:] or None
    print(json.dumps(run(repo, only=only), indent=1))
