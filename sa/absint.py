"""Finite-domain abstract interpretation of the result store and of the predicates over it.

The store classes (`HiddenDict`, `DAGNodeStorage`) and the wait / readiness predicates touch node
results only through `key in dict`, `key in hidden`, `is None`, `isinstance(v, <classes>)`, truthiness
and boolean connectives.  This module interprets the *source* of those functions (AST, the repository
is never imported or executed) over an abstract domain:

  keys      : symbolic tokens ('C', 'O', 'P', ...)
  values    : None | FALSY (0) | TRUTHY (1) | EXC (an exception instance) | REC (a Recurrent marker)
              | CASE (a CaseResult) - one representative per class of values the code can distinguish
  presence  : absent | hidden | visible  (per key, per HiddenDict)
  anything read from networkx / the dag that is not modelled is TOP; a branch on TOP is explored both
  ways (choice oracle), so the result of a predicate is the *set* of its possible outcomes.

Only the expression and statement forms those functions use are supported; anything else raises
AnalysisError (UNDECIDED), never a guess.
"""
from __future__ import annotations

import ast
from typing import Any, Dict, List, Optional, Tuple

from .program import AnalysisError, ClassInfo, FuncEnv, FuncUnit, Program, dotted, unparse


class _Top:
    def __repr__(self) -> str:
        return 'TOP'


TOP = _Top()


class AObj:
    """Abstract instance of an in-repo or external class."""

    def __init__(self, cls, attrs: Optional[dict] = None, tag: str = '') -> None:
        self.cls = cls            # ClassInfo | ('ext', dotted)
        self.attrs = attrs if attrs is not None else {}
        self.tag = tag

    def __repr__(self) -> str:
        name = self.cls.name if isinstance(self.cls, ClassInfo) else self.cls[1].split('.')[-1]
        return f'<{self.tag or name}>'


class AOneShot:
    """An iterator that can be consumed once (generator expression, map, filter, zip, reversed, iter ...).  It is lazy like the
    real thing: the elements are computed when something iterates it (errors raised by the element computation surface there).
    The marker survives only while the value is handed on unchanged; any conversion (list(), tuple(), sorted(), a comprehension
    over it) gives an ordinary container."""

    def __init__(self, thunk) -> None:
        self._thunk = thunk
        self._items = None
        self.gen_body = None        # body / activation of a generator function (None for every other lazy iterator)
        self.gen_env = None
        self.truncated = False      # an unbounded generator cut after GEN_LIMIT elements: only a lazy consumer may take from it

    def items(self) -> list:
        if self._items is None:
            self._items = list(self._thunk())
        return self._items

    def __repr__(self) -> str:
        return '<one-shot iterator>'


class AClass:
    def __init__(self, ref) -> None:
        self.ref = ref            # ClassInfo | ('ext', dotted)

    def __repr__(self) -> str:
        return f'<class {self.ref.name if isinstance(self.ref, ClassInfo) else self.ref[1]}>'

    def __eq__(self, other) -> bool:
        return isinstance(other, AClass) and (other.ref is self.ref or (isinstance(self.ref, tuple) and other.ref == self.ref))

    def __hash__(self) -> int:
        return hash(self.ref.name if isinstance(self.ref, ClassInfo) else self.ref)


class AFunc:
    def __init__(self, unit: FuncUnit, self_obj=None, closure=None, pre_args=(), pre_kwargs=None) -> None:
        self.unit = unit
        self.self_obj = self_obj
        self.closure = closure
        self.pre_args = tuple(pre_args)
        self.pre_kwargs = dict(pre_kwargs or {})
        self.attrs: dict = {}            # function attributes set by the interpreted code (__name__, __doc__, ...)


class AExt:
    def __init__(self, name: str, recv=None) -> None:
        self.name = name
        self.recv = recv

    def __repr__(self) -> str:
        return f'<ext {self.name}>'

    def __eq__(self, other) -> bool:
        # two references to the same external name (an enum member such as inspect.Parameter.VAR_KEYWORD) are the same value
        return isinstance(other, AExt) and other.name == self.name and other.recv is self.recv

    def __hash__(self) -> int:
        return hash(self.name)


class ASuper:
    def __init__(self, obj: AObj, cls: ClassInfo) -> None:
        self.obj = obj
        self.cls = cls


GEN_LIMIT = 64


class _GenTruncated(BaseException):
    """A generator body has produced GEN_LIMIT elements: it is cut there (not an error of the interpreted code)."""


class _Return(Exception):
    def __init__(self, value) -> None:
        self.value = value


class ARaise(Exception):
    """The interpreted code raises."""

    def __init__(self, what: str, obj=None) -> None:
        super().__init__(what)
        self.what = what
        self.obj = obj          # the abstract exception object, when there is one (kept through catch / re-raise)


class Oracle:
    """Enumerates the outcomes of branches on TOP."""

    def __init__(self) -> None:
        self.prefix: List[bool] = []
        self.pos = 0
        self.used: List[bool] = []

    def start(self, prefix: List[bool]) -> None:
        self.prefix = list(prefix)
        self.pos = 0
        self.used = []

    def choose(self) -> bool:
        if self.pos < len(self.prefix):
            v = self.prefix[self.pos]
        else:
            v = False
        self.pos += 1
        self.used.append(v)
        if len(self.used) > 24:
            raise AnalysisError('abstract interpretation: too many unknown branches')
        return v


_CLASS_VALUES: Dict[Tuple[str, str], Any] = {}      # class-level attribute values of the world being interpreted (one process)


def reset_world() -> None:
    """A new world (process): class-level attributes have the values their class bodies give them."""
    _CLASS_VALUES.clear()


def enumerate_outcomes(run) -> List[Any]:
    """Run `run(oracle)` for every resolution of the TOP branches; returns the list of outcomes.  Every resolution is a world of
    its own: state kept on classes does not leak from one to the next."""
    oracle = Oracle()
    outcomes = []
    pending: List[List[bool]] = [[]]
    seen = set()
    while pending:
        prefix = pending.pop()
        oracle.start(prefix)
        reset_world()
        try:
            res = ('value', run(oracle))
        except ARaise as ex:
            res = ('raise', ex.what)
        used = tuple(oracle.used)
        if used in seen:
            continue
        seen.add(used)
        outcomes.append(res)
        # flip each choice made beyond the prefix
        for i in range(len(prefix), len(used)):
            alt = list(used[:i]) + [not used[i]]
            pending.append(alt)
        if len(seen) > 4096:
            raise AnalysisError('abstract interpretation: outcome space too large')
    return outcomes


class Interp:
    def __init__(self, program: Program, oracle: Oracle, stubs: Optional[Dict[str, Any]] = None, max_steps: int = 200000,
                 ext_stubs: Optional[Dict[str, Any]] = None, enum_objects: bool = False) -> None:
        self.p = program
        self.oracle = oracle
        self.stubs = stubs or {}        # fid -> callable(interp, args, kwargs, self_obj) -> value
        self.ext_stubs = ext_stubs or {}   # external dotted name -> callable(args, kwargs) -> value
        self.enum_objects = enum_objects   # members of in-repo Enum classes are objects with .name / .value (default: their values)
        self._enum_members: Dict[Tuple[int, str], AObj] = {}
        self.steps = 0
        self.max_steps = max_steps
        self.reads: List[Tuple[str, Any]] = []

    # ------------------------------------------------------------------ helpers
    def tick(self) -> None:
        self.steps += 1
        if self.steps > self.max_steps:
            raise AnalysisError('abstract interpretation: step limit exceeded')

    def truth(self, v) -> bool:
        if v is TOP:
            return self.oracle.choose()
        if isinstance(v, AObj):
            if isinstance(v.cls, ClassInfo):
                # the truth protocol of an in-repo class: __bool__, else __len__
                for name in ('__bool__', '__len__'):
                    m = self.p.lookup_method(v.cls, name)
                    if m is not None:
                        r = self.call_unit(m, [], {}, v)
                        if r is TOP:
                            return self.oracle.choose()
                        return bool(r)
            if isinstance(v.cls, ClassInfo) and 'data' in v.attrs and isinstance(v.attrs['data'], dict):
                return bool(v.attrs['data'])
            return True
        if isinstance(v, (AClass, AFunc, AExt)):
            return True
        return bool(v)

    def class_ancestors(self, ref) -> set:
        if isinstance(ref, ClassInfo):
            out = set()
            for c in self.p.mro(ref):
                if isinstance(c, ClassInfo):
                    out.add(c.name)
                else:
                    out |= self._ext_anc(c[1])
            out.add('object')
            return out
        return self._ext_anc(ref[1]) | {'object'}

    @staticmethod
    def _ext_anc(name: str) -> set:
        import builtins
        last = name.split('.')[-1]
        obj = getattr(builtins, last, None)
        if isinstance(obj, type):
            return {c.__name__ for c in obj.__mro__}
        known = {'DiGraph': {'DiGraph', 'Graph'}, 'MultiDiGraph': {'MultiDiGraph', 'MultiGraph', 'DiGraph', 'Graph'},
                 'MultiGraph': {'MultiGraph', 'Graph'}, 'OrderedDict': {'OrderedDict', 'dict'}, 'defaultdict': {'defaultdict', 'dict'},
                 'UserDict': {'UserDict', 'MutableMapping', 'Mapping'}}
        return set(known.get(last, {last}))

    def isinstance_(self, v, classes) -> bool:
        if classes is TOP or v is TOP:
            return self.oracle.choose()
        cl = classes if isinstance(classes, tuple) else (classes,)
        if v is None:
            mine = {'NoneType', 'object'}
        elif isinstance(v, bool):
            mine = {'bool', 'int', 'object'}
        elif isinstance(v, int):
            mine = {'int', 'object'}
        elif isinstance(v, str):
            mine = {'str', 'object'}
        elif isinstance(v, (list, tuple, set, dict)):
            mine = {type(v).__name__, 'object'}
        elif isinstance(v, AObj):
            mine = self.class_ancestors(v.cls)
        elif isinstance(v, AOneShot):
            mine = {'Iterator', 'Iterable', 'Generator', 'object'}
        else:
            mine = {'object'}
        if isinstance(v, (list, tuple, set, frozenset, dict, str)):
            mine |= {'Iterable', 'Collection', 'Sized', 'Container'} | ({'Sequence'} if isinstance(v, (list, tuple, str)) else set()) \
                | ({'Mapping', 'MutableMapping'} if isinstance(v, dict) else set())
        for c in cl:
            if c is TOP:
                if self.oracle.choose():
                    return True
                continue
            if isinstance(c, AExt) and c.recv is None and c.name.split('.')[-1][:1].isupper():
                # a class of an external module (enum.Enum, pathlib.Path)
                if c.name.split('.')[-1] in mine:
                    return True
                continue
            if not isinstance(c, AClass):
                raise AnalysisError(f'abstract interpretation: isinstance against {c!r}')
            name = c.ref.name if isinstance(c.ref, ClassInfo) else c.ref[1].split('.')[-1]
            if name in mine:
                return True
        return False

    def _module_value(self, mod, name: str, expr: ast.AST):
        """The value of a module-level name: evaluated once per world (a mutable one is one object for the whole process)."""
        key = ('module:' + mod.name, name)
        if key not in _CLASS_VALUES:
            _CLASS_VALUES[key] = self.eval(expr, {'__module__': mod, '__unit__': None, '__closure__': None})
        return _CLASS_VALUES[key]

    def _class_value(self, owner, attr: str, default: ast.AST):
        """The value of a class-level attribute: evaluated once (when the class body runs) and shared by every instance that
        does not shadow it - a mutable one is one object for the whole process."""
        cache = _CLASS_VALUES
        key = (owner.qualname, attr)
        if key not in cache:
            cache[key] = self.eval(default, {'__module__': owner.module, '__unit__': None, '__closure__': None})
        return cache[key]

    def _exec_with_generator(self, st: ast.With, item: ast.withitem, cm: 'AOneShot', env: Dict[str, Any]) -> None:
        pending: list = []

        def run_body(value):
            if item.optional_vars is not None:
                self.assign(item.optional_vars, value, env)
            try:
                self.exec_block(st.body, env)
            except (_Return, _Break, _Continue) as flow:
                # leaving the block by return / break / continue is a normal exit for the manager
                pending.append(flow)

        genv = cm.gen_env
        genv['__cm_body__'] = run_body
        genv['__cm_yielded__'] = False
        try:
            self.exec_block(cm.gen_body, genv)
        except _Return:
            pass
        if not genv['__cm_yielded__']:
            raise ARaise('RuntimeError (generator didn\'t yield)')
        if pending:
            raise pending[0]

    # ------------------------------------------------------------------ calls
    def call_unit(self, unit: FuncUnit, args: List[Any], kwargs: Dict[str, Any], self_obj=None, closure=None):
        self.tick()
        if unit.fid in self.stubs:
            return self.stubs[unit.fid](self, args, kwargs, self_obj)
        a = unit.node.args
        params = [x.arg for x in getattr(a, 'posonlyargs', [])] + [x.arg for x in a.args]
        env: Dict[str, Any] = {}
        pos = list(args)
        if self_obj is not None and params and unit.cls is not None and not unit.is_static \
                and not isinstance(unit.node, ast.Lambda) and unit.parent is None:
            pos = [self_obj] + pos
        for name, val in zip(params, pos):
            env[name] = val
        if len(pos) > len(params):
            if a.vararg:
                env[a.vararg.arg] = tuple(pos[len(params):])
            else:
                raise AnalysisError(f'abstract interpretation: too many arguments for {unit.fid}')
        elif a.vararg:
            env[a.vararg.arg] = ()
        kwonly = [x.arg for x in a.kwonlyargs]
        extra = {}
        for k, v in kwargs.items():
            if k in params or k in kwonly:
                env[k] = v
            else:
                extra[k] = v
        if a.kwarg:
            env[a.kwarg.arg] = extra
        defaults = list(a.defaults)
        dparams = params[len(params) - len(defaults):] if defaults else []
        # defaults belong to the defining scope (for a lambda / nested function: the enclosing activation)
        menv = {'__unit__': unit, '__closure__': closure, '__module__': unit.module}
        for pname, d in zip(dparams, defaults):
            if pname not in env:
                env[pname] = self.eval(d, menv)
        for pname, d in zip(kwonly, a.kw_defaults):
            if pname not in env and d is not None:
                env[pname] = self.eval(d, menv)
        for pname in params + kwonly:
            if pname not in env:
                raise AnalysisError(f'abstract interpretation: missing argument {pname} for {unit.fid}')
        env['__unit__'] = unit
        env['__closure__'] = closure
        env['__module__'] = unit.module
        env['__self__'] = self_obj
        if isinstance(unit.node, ast.Lambda):
            return self.eval(unit.node.body, env)
        if _is_generator(unit.node):
            # a generator function: calling it runs nothing; the body runs when the result is iterated (all of it at the
            # first consumption - the interleaving with the consumer is not modelled)
            yields: list = []
            env['__yields__'] = yields

            holder: list = []

            def thunk(body=unit.node.body, env=env, yields=yields):
                try:
                    self.exec_block(body, env)
                except _Return:
                    pass
                except _GenTruncated:
                    holder[0].truncated = True
                return yields
            holder.append(AOneShot(thunk))
            holder[0].gen_body = unit.node.body      # used when the generator serves as a context manager (see ast.With)
            holder[0].gen_env = env
            return holder[0]
        try:
            self.exec_block(unit.node.body, env)
        except _Return as r:
            return r.value
        return None

    def call(self, f, args: List[Any], kwargs: Dict[str, Any], node: Optional[ast.AST] = None):
        self.tick()
        if f is TOP:
            return TOP
        if isinstance(f, AFunc):
            return self.call_unit(f.unit, list(f.pre_args) + list(args), {**f.pre_kwargs, **kwargs}, f.self_obj, f.closure)
        if isinstance(f, AClass):
            return self.construct(f, args, kwargs)
        if isinstance(f, AExt):
            return self.call_ext(f, args, kwargs)
        if isinstance(f, AObj) and f.cls == ('ext', 'operator.attrgetter'):
            def one(path):
                v = args[0]
                for part in path.split('.'):
                    v = self.getattr_(v, part, {'__unit__': None, '__closure__': None, '__module__': None}, node)
                return v
            names = f.attrs['names']
            return one(names[0]) if len(names) == 1 else tuple(one(n_) for n_ in names)
        if isinstance(f, AObj) and f.cls == ('ext', 'functools.partial'):
            return self.call(f.attrs['func'], list(f.attrs['args']) + list(args), {**f.attrs['keywords'], **kwargs}, node)
        raise AnalysisError(f'abstract interpretation: call of {f!r} ({unparse(node) if node is not None else ""})')

    def construct(self, c: AClass, args, kwargs):
        ref = c.ref
        if isinstance(ref, ClassInfo):
            anc = self.class_ancestors(ref)
            if 'BaseException' in anc:
                return AObj(ref, {'args': tuple(args)}, tag=f'exc:{ref.name}')
            if self._is_enum(ref):
                for m_ in self.enum_members(ref):
                    if args and (m_ is args[0] or (not isinstance(args[0], AObj) and m_.attrs['value'] == args[0])):
                        return m_
                raise ARaise(f'ValueError ({args[0]!r} is not a valid {ref.name})')
            if self._enum_like(ref) and len(args) == 1 and not kwargs:
                # Enum(value) while members are represented by their values: the value itself, or ValueError
                vals = self._to_list(c)
                if args[0] is TOP:
                    return TOP
                if args[0] in vals:
                    return args[0]
                raise ARaise(f'ValueError ({args[0]!r} is not a valid {ref.name})')
            obj = AObj(ref, {})
            init = self.p.lookup_method(ref, '__init__')
            if init is not None:
                # a hand-written constructor: interpreted
                self.call_unit(init, list(args), dict(kwargs), obj)
                return obj
            # dataclass-like: fields from keywords / positionals in declaration order
            names = [n for n, (ann, d) in ref.fields.items() if ann is not None]
            for n, v in zip(names, args):
                obj.attrs[n] = v
            obj.attrs.update(kwargs)
            if getattr(self, 'eager_dataclasses', False):
                # the dataclass protocol in full: every defaulted field is materialised now (in declaration order, base classes
                # first), then __post_init__ runs
                env_ = {'__unit__': None, '__closure__': None, '__module__': ref.module}
                for c_ in reversed([x for x in self.p.mro(ref) if isinstance(x, ClassInfo)]):
                    for fname, (ann, default) in c_.fields.items():
                        if ann is not None and default is not None and fname not in obj.attrs:
                            if isinstance(default, ast.Call) and (dotted(default.func) or '').split('.')[-1] == 'field' \
                                    and not any(kw.arg in ('default', 'default_factory') for kw in default.keywords):
                                continue                    # field(init=False): set by __post_init__
                            self.getattr_(obj, fname, env_, None)
                post = self.p.lookup_method(ref, '__post_init__')
                if post is not None:
                    self.call_unit(post, [], {}, obj)
            return obj
        name = ref[1]
        anc = self._ext_anc(name)
        if 'BaseException' in anc:
            return AObj(ref, {'args': tuple(args)}, tag=f'exc:{name.split(".")[-1]}')
        if name in ('builtins.dict',):
            if args and isinstance(args[0], (AOneShot, list, tuple)):
                return dict([tuple(self._to_list(x)) for x in self._to_list(args[0])], **kwargs)
            return dict(*args, **kwargs) if not args or isinstance(args[0], dict) else TOP
        if name in ('builtins.list',):
            return self._to_list(args[0]) if args else []
        if name in ('builtins.set',):
            return set(self._to_list(args[0])) if args else set()
        if name in ('builtins.tuple',):
            return tuple(self._to_list(args[0])) if args else ()
        if name == 'builtins.bool':
            return self.truth(args[0]) if args else False
        if name == 'builtins.str':
            if args and isinstance(args[0], (str, int)) and not isinstance(args[0], bool):
                return str(args[0])
            if args and isinstance(args[0], AObj):
                return f'str({args[0]!r})'            # the text of an object is not the object (nor its .value)
            return TOP
        if name == 'builtins.type' and len(args) == 3 and isinstance(args[2], dict):
            # type(name, bases, namespace): a class created at run time, held as an object with the namespace as attributes
            return AObj(('ext', 'created-class'), {'__name__': args[0], '__bases__': tuple(self._to_list(args[1])), **args[2]},
                        tag='created-class')
        if name == 'builtins.enumerate':
            start = args[1] if len(args) > 1 else kwargs.get('start', 0)
            return list(enumerate(self._to_list(args[0]), start))
        if name == 'builtins.zip':
            return AOneShot(lambda: list(zip(*[self._to_list(a) for a in args])))
        if name == 'builtins.reversed':
            return AOneShot(lambda a=args[0]: reversed(self._to_list(a)))
        if name == 'builtins.filter' and len(args) == 2:
            items = args[1] if isinstance(args[1], AOneShot) else self._to_list(args[1])
            if isinstance(items, AOneShot):
                src = items
                if args[0] is None:
                    return AOneShot(lambda: [x for x in src.items() if self.truth(x)])
                return AOneShot(lambda: [x for x in src.items() if self.truth(self.call(args[0], [x], {}))])
            if args[0] is None:
                return AOneShot(lambda: [x for x in items if self.truth(x)])
            return AOneShot(lambda: [x for x in items if self.truth(self.call(args[0], [x], {}))])
        if name == 'builtins.map' and len(args) >= 2:
            return AOneShot(lambda: [self.call(args[0], list(xs), {}) for xs in zip(*[self._to_list(a) for a in args[1:]])])
        if name == 'builtins.frozenset':
            return frozenset(self._to_list(args[0])) if args else frozenset()
        if name == 'builtins.range' and all(isinstance(a, int) for a in args):
            return list(range(*args))
        return TOP

    def _enum_like(self, ci) -> bool:
        return isinstance(ci, ClassInfo) and any(b.split('.')[-1] in ('Enum', 'IntEnum', 'StrEnum', 'Flag') for b in self.p.ext_bases(ci))

    def _is_enum(self, ci) -> bool:
        return self.enum_objects and isinstance(ci, ClassInfo) and any(b.split('.')[-1] in ('Enum', 'IntEnum', 'StrEnum', 'Flag')
                                                                       for b in self.p.ext_bases(ci))

    def enum_members(self, ci: ClassInfo) -> List[AObj]:
        out = []
        for name, (ann, default) in ci.fields.items():
            if default is None or name.startswith('_'):
                continue
            key = (id(ci), name)
            if key not in self._enum_members:
                val = self.eval(default, {'__module__': ci.module, '__unit__': None, '__closure__': None})
                self._enum_members[key] = AObj(ci, {'name': name, 'value': val, '_value_': val}, tag=f'{ci.name}.{name}')
            out.append(self._enum_members[key])
        return out

    def _to_list(self, v) -> list:
        if v is TOP:
            raise AnalysisError('abstract interpretation: iteration over an unknown collection')
        if isinstance(v, (list, tuple, set, frozenset)):
            return list(v)
        if isinstance(v, AOneShot):
            items = list(v.items())
            if v.truncated:
                # only the first GEN_LIMIT elements of an unbounded generator are known
                if getattr(self, '_lazy_depth', 0) == 0:
                    raise AnalysisError('abstract interpretation: an unbounded generator is consumed to its end')
                self._saw_truncated = True
            return items
        if isinstance(v, dict):
            return list(v.keys())
        if isinstance(v, AClass) and self._is_enum(v.ref):
            return list(self.enum_members(v.ref))
        if isinstance(v, AClass) and isinstance(v.ref, ClassInfo) and self._enum_like(v.ref):
            # members are represented by their values: iterating the class yields the values in declaration order
            return [self.eval(d, {'__module__': v.ref.module, '__unit__': None, '__closure__': None})
                    for n_, (a_, d) in v.ref.fields.items() if d is not None and not n_.startswith('_')]
        if isinstance(v, AObj) and 'data' in v.attrs:
            return list(v.attrs['data'].keys())
        if isinstance(v, AObj) and 'nodes' in v.attrs and isinstance(v.attrs['nodes'], (dict, list, tuple, set)):
            return self._to_list(v.attrs['nodes'])            # iterating a graph yields its nodes
        raise AnalysisError(f'abstract interpretation: iteration over {v!r}')

    def call_ext(self, f: AExt, args, kwargs):
        name = f.name
        last = name.split('.')[-1]
        if name in self.ext_stubs:
            return self.ext_stubs[name](args, kwargs)
        if name == 'itertools.count':
            start = args[0] if args else kwargs.get('start', 0)
            step = args[1] if len(args) > 1 else kwargs.get('step', 1)
            if isinstance(start, int) and isinstance(step, int) and step > 0:
                return AObj(('ext', 'itertools.count'), {'start': start, 'step': step}, tag='itertools.count')
            return TOP
        if name == 'builtins.isinstance':
            return self.isinstance_(args[0], args[1])
        if name == 'builtins.issubclass' and len(args) == 2:
            sub = args[0]
            if isinstance(sub, AExt) and sub.recv is None and sub.name.split('.')[-1][:1].isupper():
                sub = AClass(('ext', sub.name))
            if not isinstance(sub, AClass):
                return TOP
            mine = self.class_ancestors(sub.ref)
            for c in (args[1] if isinstance(args[1], tuple) else (args[1],)):
                if isinstance(c, AExt) and c.recv is None and c.name.split('.')[-1][:1].isupper():
                    c = AClass(('ext', c.name))
                if not isinstance(c, AClass):
                    return TOP
                if (c.ref.name if isinstance(c.ref, ClassInfo) else c.ref[1].split('.')[-1]) in mine:
                    return True
            return False
        if name == 'builtins.bool':
            return self.truth(args[0]) if args else False
        if name == 'builtins.id' and len(args) == 1 and args[0] is not TOP and not isinstance(args[0], (str, int, float, tuple)):
            return id(args[0])                       # the identity of the abstract object stands for the identity of the real one
        if name in ('builtins.max', 'builtins.min') and args and not kwargs:
            vals_ = self._to_list(args[0]) if len(args) == 1 else list(args)
            if vals_ and all(isinstance(x, (int, float)) and not isinstance(x, bool) for x in vals_):
                return max(vals_) if name.endswith('max') else min(vals_)
            return TOP
        if name == 'builtins.any':
            return any(self.truth(x) for x in self._to_list(args[0]))
        if name == 'builtins.all':
            return all(self.truth(x) for x in self._to_list(args[0]))
        if name in ('builtins.list', 'builtins.tuple', 'builtins.set', 'builtins.sorted'):
            lst = self._to_list(args[0]) if args else []
            return lst if name != 'builtins.set' else set(lst)
        if name == 'builtins.len':
            return len(self._to_list(args[0]))
        if name in ('networkx.topological_sort', 'networkx.lexicographical_topological_sort') and args and isinstance(args[0], AObj) \
                and 'nodes' in args[0].attrs and args[0].attrs['nodes'] is not TOP:
            return self._to_list(args[0].attrs['nodes'])          # some order of the abstract graph's nodes
        if name == 'networkx.subgraph_view' and args and isinstance(args[0], AObj) and isinstance(args[0].attrs.get('edges'), dict) \
                and isinstance(args[0].attrs.get('nodes'), dict):
            # a view through two predicates: kept nodes, and the edges between kept nodes that the edge filter keeps
            g_ = args[0]
            fn = kwargs.get('filter_node', args[1] if len(args) > 1 else None)
            fe = kwargs.get('filter_edge', args[2] if len(args) > 2 else None)
            keep = {n_: a_ for n_, a_ in g_.attrs['nodes'].items() if fn is None or self.truth(self.call(fn, [n_], {}))}
            edges_v = {(u, v): a_ for (u, v), a_ in g_.attrs['edges'].items()
                       if u in keep and v in keep and (fe is None or self.truth(self.call(fe, [u, v], {})))}
            view = AObj(g_.cls, {'nodes': keep, 'edges': edges_v}, tag=(g_.tag or 'graph') + '-view')
            if 'graph' in g_.attrs:
                view.attrs['graph'] = g_.attrs['graph']
            return view
        if name == 'networkx.all_simple_paths' and len(args) >= 3 and isinstance(args[0], AObj) and isinstance(args[0].attrs.get('edges'), dict):
            # every simple path source -> target of the abstract graph (a finite table: enumerated)
            edges_ = list(args[0].attrs['edges'])
            src, dst = args[1], args[2]
            paths: list = []
            if src not in args[0].attrs.get('nodes', {}):
                raise ARaise('NodeNotFound (source)')
            if dst not in args[0].attrs.get('nodes', {}):
                raise ARaise('NodeNotFound (target)')

            def walk(path):
                for (u, v) in edges_:
                    if u == path[-1] and v not in path:
                        if v == dst:
                            paths.append(path + [v])
                        else:
                            walk(path + [v])
            if src != dst:
                walk([src])
            return AOneShot(lambda: paths)
        if name == 'networkx.descendants_at_distance' and len(args) >= 3 and isinstance(args[0], AObj) \
                and isinstance(args[0].attrs.get('edges'), dict) and isinstance(args[2], int):
            level = {args[1]}
            seen_ = {args[1]}
            for _ in range(args[2]):
                level = {v for (u, v) in args[0].attrs['edges'] if u in level and v not in seen_}
                seen_ |= level
            return set(level)
        if name in ('networkx.descendants', 'networkx.ancestors', 'networkx.has_path') and args and isinstance(args[0], AObj) \
                and isinstance(args[0].attrs.get('edges'), dict):
            edges = list(args[0].attrs['edges'])

            def reach_from(src, forward=True):
                seen, todo = set(), [src]
                while todo:
                    x = todo.pop()
                    for (u, v) in edges:
                        a, b = (u, v) if forward else (v, u)
                        if a == x and b not in seen:
                            seen.add(b)
                            todo.append(b)
                return seen
            if last == 'descendants':
                return reach_from(args[1], True)
            if last == 'ancestors':
                return reach_from(args[1], False)
            return args[2] in reach_from(args[1], True) or args[1] == args[2]
        if name == 'builtins.getattr' and len(args) >= 2 and isinstance(args[1], str):
            obj = args[0]
            if isinstance(obj, AObj) and args[1] in obj.attrs:
                return obj.attrs[args[1]]
            if isinstance(obj, (AObj, AClass)):
                r = self.getattr_(obj, args[1], {'__unit__': None, '__module__': None, '__closure__': None})
                if r is TOP and len(args) >= 3:
                    return args[2]                      # the attribute is not part of the modelled object: the default
                return r
            if isinstance(obj, AFunc):
                return obj.attrs.get(args[1], args[2] if len(args) >= 3 else TOP)
            return TOP
        if name == 'builtins.enumerate':
            return list(enumerate(self._to_list(args[0])))
        if name == 'builtins.next' and args and isinstance(args[0], (list, tuple, AOneShot)):
            # the first element (consumption is not modelled)
            seq = args[0].items() if isinstance(args[0], AOneShot) else args[0]
            if seq:
                return seq[0]
            if isinstance(args[0], AOneShot) and args[0].truncated:
                raise AnalysisError('abstract interpretation: next() finds nothing in the known part of an unbounded generator')
            if len(args) > 1:
                return args[1]
            raise ARaise('StopIteration')
        if name == 'builtins.iter' and args and isinstance(args[0], (list, tuple, set, dict)):
            return AOneShot(lambda a=args[0]: self._to_list(a))
        if name == 'json.dumps' and args and not kwargs:
            def plain(x) -> bool:
                return isinstance(x, (str, int, type(None))) or (isinstance(x, (list, tuple)) and all(plain(y) for y in x))
            import json as _json
            return _json.dumps(args[0]) if plain(args[0]) else TOP
        if name == 'collections.deque':
            return self._to_list(args[0]) if args else []
        if name == 'builtins.vars' and args and isinstance(args[0], AObj):
            return {k: v for k, v in args[0].attrs.items() if k != '__bases__'}          # the object's own namespace
        if name == 'builtins.callable':
            return args[0] is not None and not isinstance(args[0], (str, int, bool))
        if name == 'builtins.str':
            if args and isinstance(args[0], (str, int)) and not isinstance(args[0], bool):
                return str(args[0])
            if args and isinstance(args[0], AObj):
                return f'str({args[0]!r})'            # the text of an object is not the object (nor its .value)
            return TOP
        if name == 're.compile' and args and isinstance(args[0], str):
            flags = args[1] if len(args) > 1 else kwargs.get('flags', 0)
            if isinstance(flags, int):
                return AObj(('ext', 're.Pattern'), {'pattern': args[0], 'flags': flags}, tag=f're:{args[0][:20]}')
            return TOP
        if name.startswith('re.') and last in ('sub', 'subn', 'split', 'findall', 'escape', 'match', 'fullmatch', 'search'):
            import re as _re
            recv_ = f.recv
            conc = lambda x: isinstance(x, (str, int)) and not isinstance(x, bool)      # noqa: E731
            if isinstance(recv_, AObj) and recv_.cls == ('ext', 're.Pattern'):
                if not all(conc(x) for x in args) or kwargs:
                    return TOP
                r_ = getattr(_re.compile(recv_.attrs['pattern'], recv_.attrs['flags']), last)(*args)
            elif recv_ is None and all(conc(x) for x in args) and all(conc(x) for x in kwargs.values()):
                r_ = getattr(_re, last)(*args, **kwargs)
            else:
                return TOP
            if last in ('match', 'fullmatch', 'search'):
                if r_ is None:
                    return None
                return AObj(('ext', 're.Match'), {'group0': r_.group(0), 'groups': r_.groups()}, tag='match')
            return list(r_) if isinstance(r_, list) else (tuple(r_) if isinstance(r_, tuple) else r_)
        if name == 'operator.attrgetter' and args and all(isinstance(a_, str) for a_ in args):
            return AObj(('ext', 'operator.attrgetter'), {'names': tuple(args)}, tag='attrgetter')
        if name == 'functools.partial':
            target = args[0]
            if isinstance(target, AFunc):
                return AFunc(target.unit, target.self_obj, target.closure, tuple(target.pre_args) + tuple(args[1:]),
                             {**target.pre_kwargs, **kwargs})
            if isinstance(target, (AExt, AClass)) or (isinstance(target, AObj) and target.cls == ('ext', 'functools.partial')):
                return AObj(('ext', 'functools.partial'), {'func': target, 'args': tuple(args[1:]), 'keywords': dict(kwargs)}, tag='partial')
            return TOP
        if name == 'logging.getLogger':
            return AExt('logging.Logger#')
        if name.startswith('logging.') or '.Logger.' in name or 'Logger#' in name or name.startswith('warnings.'):
            return None
        if name == 'typing.cast':
            return args[1]
        # methods of python containers held abstractly
        recv = f.recv
        if isinstance(recv, AObj) and name.startswith('networkx.DiGraph.') and isinstance(recv.attrs.get('edges'), dict):
            edges = recv.attrs['edges']
            if last == 'predecessors':
                return [u for (u, v) in edges if v == args[0]]
            if last == 'successors':
                return [v for (u, v) in edges if u == args[0]]
            if last in ('in_edges', 'out_edges'):
                sel = [(u, v) for (u, v) in edges if (v if last == 'in_edges' else u) == args[0]]
                data = kwargs.get('data', args[1] if len(args) > 1 else False)
                if data is True:
                    return [(u, v, edges[(u, v)]) for (u, v) in sel]
                if data is False:
                    return sel
                raise AnalysisError(f'abstract interpretation: {last}(data={data!r}) not modelled')
            if last == 'has_node':
                return args[0] in recv.attrs.get('nodes', {})
            if last == 'has_edge':
                return (args[0], args[1]) in edges
            if last in ('subgraph',) and isinstance(recv.attrs.get('nodes'), dict):
                # a view restricted to the given nodes: induced edges; the attribute dictionary `.graph` is the root's own
                keep = set(self._to_list(args[0]))
                view = AObj(recv.cls, {'nodes': {k: v for k, v in recv.attrs['nodes'].items() if k in keep},
                                       'edges': {k: v for k, v in edges.items() if k[0] in keep and k[1] in keep}}, tag=recv.tag + '-view')
                if 'graph' in recv.attrs:
                    view.attrs['graph'] = recv.attrs['graph']
                return view
            nodes = recv.attrs.get('nodes')
            if isinstance(nodes, dict):
                # writers of an abstract graph under construction (networkx semantics: attributes are merged)
                if last == 'add_node':
                    nodes.setdefault(args[0], {}).update(kwargs)
                    return None
                if last == 'add_edge':
                    nodes.setdefault(args[0], {})
                    nodes.setdefault(args[1], {})
                    edges.setdefault((args[0], args[1]), {}).update(kwargs)
                    return None
                if last == 'copy':
                    return AObj(recv.cls, {'nodes': {k: dict(v) for k, v in nodes.items()},
                                           'edges': {k: dict(v) for k, v in edges.items()}}, tag=recv.tag)
        if isinstance(recv, str) and last in _STR_METHODS:
            args = [list(a_.items()) if isinstance(a_, AOneShot) else a_ for a_ in args]

            def concrete(x) -> bool:
                return isinstance(x, (str, int)) or (isinstance(x, (list, tuple)) and all(concrete(y) for y in x))
            if all(concrete(a) for a in args) and not kwargs:
                return getattr(recv, last)(*args)
            return TOP
        if isinstance(recv, (dict, set, list)) and last == '__contains__':
            return args[0] in recv
        if isinstance(recv, dict):
            if last == '__getitem__':
                if args[0] not in recv:
                    raise ARaise('KeyError')
                return recv[args[0]]
            if last == '__setitem__':
                recv[args[0]] = args[1]
                return None
            if last == 'get':
                k = args[0]
                return recv.get(k, args[1] if len(args) > 1 else None)
            if last == 'pop':
                if args[0] not in recv:
                    if len(args) > 1:
                        return args[1]
                    raise ARaise('KeyError')
                return recv.pop(args[0])
            if last in ('keys',):
                return list(recv.keys())
            if last in ('values',):
                return list(recv.values())
            if last in ('items',):
                return list(recv.items())
            if last == 'setdefault':
                return recv.setdefault(args[0], args[1] if len(args) > 1 else None)
            if last == 'update':
                recv.update(*args, **kwargs)
                return None
            if last == 'copy':
                return dict(recv)
            if last == 'clear':
                recv.clear()
                return None
        if isinstance(recv, (frozenset, tuple)):
            # immutable containers: the read-only methods
            if isinstance(recv, frozenset) and last in ('intersection', 'union', 'difference', 'symmetric_difference') and args:
                res = set(recv)
                for a_ in args:
                    res = getattr(res, last)(set(self._to_list(a_)))
                return frozenset(res)
            if isinstance(recv, frozenset) and last in ('issubset', 'issuperset', 'isdisjoint') and args:
                return getattr(recv, last)(set(self._to_list(args[0])))
            if last == 'copy':
                return recv
            if last in ('count', 'index') and isinstance(recv, tuple) and args:
                if last == 'index' and args[0] not in recv:
                    raise ARaise('ValueError')
                return getattr(recv, last)(args[0])
            if last == '__contains__':
                return args[0] in recv
        if isinstance(recv, set):
            if last == 'add':
                recv.add(args[0])
                return None
            if last == 'remove':
                if args[0] not in recv:
                    raise ARaise('KeyError')
                recv.remove(args[0])
                return None
            if last == 'discard':
                recv.discard(args[0])
                return None
            if last == 'clear':
                recv.clear()
                return None
            if last == 'copy':
                return set(recv)
            if last in ('update', 'difference_update', 'intersection_update', 'symmetric_difference_update'):
                for a_ in args:
                    getattr(recv, last)(set(self._to_list(a_)))
                return None
            if last == 'pop':
                if not recv:
                    raise ARaise('KeyError')
                return recv.pop()
            if last in ('intersection', 'union', 'difference', 'symmetric_difference') and args:
                others = [set(self._to_list(a)) for a in args]
                res = set(recv)
                for o in others:
                    res = getattr(res, last)(o)
                return res
            if last in ('issubset', 'issuperset', 'isdisjoint') and args:
                return getattr(set(recv), last)(set(self._to_list(args[0])))
        if isinstance(recv, list):
            if last == 'append':
                recv.append(args[0])
                return None
            if last == 'extend':
                recv.extend(self._to_list(args[0]))
                return None
            if last == 'appendleft':
                recv.insert(0, args[0])
                return None
            if last == 'insert' and isinstance(args[0], int):
                recv.insert(args[0], args[1])
                return None
            if last in ('pop', 'popleft'):
                if not recv:
                    raise ARaise('IndexError')
                if last == 'popleft':
                    return recv.pop(0)
                return recv.pop(*[a for a in args if isinstance(a, int)])
            if last == 'copy':
                return list(recv)
            if last == 'clear':
                recv.clear()
                return None
        if isinstance(recv, (dict, set, list)) and last in ('update', 'setdefault', 'popitem', 'extend', 'remove', 'sort', 'reverse', 'insert',
                                                           'add', 'discard', 'pop', 'clear', 'append', '__setitem__', '__delitem__',
                                                           'difference_update', 'intersection_update', 'symmetric_difference_update'):
            # a mutation that is not modelled must not be skipped silently
            raise AnalysisError(f'abstract interpretation: unmodelled mutating method {type(recv).__name__}.{last}')
        return TOP

    # ------------------------------------------------------------------ statements
    def exec_block(self, body: List[ast.stmt], env: dict) -> None:
        for st in body:
            self.exec_stmt(st, env)

    _EXC_PARENTS = {'KeyError': ('LookupError',), 'IndexError': ('LookupError',), 'AttributeError': (), 'TypeError': (),
                    'ValueError': (), 'StopIteration': (), 'RuntimeError': ()}

    def _handler_matches(self, h: ast.ExceptHandler, what: str, env: Optional[dict] = None) -> bool:
        if h.type is None:
            return True
        names = []
        for t in (h.type.elts if isinstance(h.type, ast.Tuple) else [h.type]):
            nm = (dotted(t) or '').split('.')[-1]
            import builtins
            if env is not None and (not isinstance(t, ast.Name) or not isinstance(getattr(builtins, nm, None), type)) \
                    and not (isinstance(t, ast.Attribute) and isinstance(t.value, ast.Name) and t.value.id in ('asyncio', 'builtins', 'concurrent')):
                # a name that is not a built-in exception class: a constant naming the classes, an imported class
                try:
                    v = self.eval(t, env)
                except AnalysisError:
                    v = None
                vals = list(v) if isinstance(v, (tuple, list)) else [v]
                got = []
                for x in vals:
                    if isinstance(x, AClass):
                        got.append(x.ref.name if isinstance(x.ref, ClassInfo) else x.ref[1].split('.')[-1])
                    elif isinstance(x, AExt):
                        got.append(x.name.split('.')[-1])
                names.extend(got or [nm])
            else:
                names.append(nm)
        for n in names:
            if n == 'BaseException':
                return True
            if n == 'Exception':
                # cancellation and interpreter exits are not Exceptions
                if any(b in what for b in ('CancelledError', 'KeyboardInterrupt', 'SystemExit', 'GeneratorExit')):
                    continue
                return True
            if n and n in what:
                return True
            for child, parents in self._EXC_PARENTS.items():
                if child in what and n in parents:
                    return True
        return False

    def _exec_try(self, st: ast.Try, env: dict) -> None:
        try:
            try:
                self.exec_block(st.body, env)
            except ARaise as ex:
                for h in st.handlers:
                    if self._handler_matches(h, ex.what, env):
                        if ex.obj is None:
                            ex.obj = AObj(('ext', 'builtins.Exception'), {'args': (), '__what__': ex.what}, tag=f'caught:{ex.what[:40]}')
                        if h.name:
                            env[h.name] = ex.obj
                        outer_exc = env.get('__current_exc__')
                        env['__current_exc__'] = ex
                        try:
                            self.exec_block(h.body, env)
                        finally:
                            env['__current_exc__'] = outer_exc
                        break
                else:
                    raise
            else:
                self.exec_block(st.orelse, env)
        finally:
            if st.finalbody:
                self.exec_block(st.finalbody, env)

    def exec_stmt(self, st: ast.stmt, env: dict) -> None:
        self.tick()
        if isinstance(st, ast.Expr):
            self.eval(st.value, env)
            return
        if isinstance(st, ast.Return):
            raise _Return(self.eval(st.value, env) if st.value is not None else None)
        if isinstance(st, ast.Assign):
            v = self.eval(st.value, env)
            for tgt in st.targets:
                self.assign(tgt, v, env)
            return
        if isinstance(st, ast.AnnAssign):
            if st.value is not None:
                self.assign(st.target, self.eval(st.value, env), env)
            return
        if isinstance(st, ast.If):
            if self.truth(self.eval(st.test, env)):
                self.exec_block(st.body, env)
            else:
                self.exec_block(st.orelse, env)
            return
        if isinstance(st, ast.For):
            it_val = self.eval(st.iter, env)
            if isinstance(it_val, AObj) and it_val.tag == 'itertools.count':
                # an endless counter: the loop ends by break / return / raise (bounded here)
                it_val = list(range(it_val.attrs['start'], it_val.attrs['start'] + 64 * it_val.attrs['step'], it_val.attrs['step'])) + [_Endless]
            for item in self._to_list(it_val):
                if item is _Endless:
                    raise AnalysisError('abstract interpretation: a loop over itertools.count() did not end within 64 iterations')
                self.assign(st.target, item, env)
                try:
                    self.exec_block(st.body, env)
                except _Continue:
                    continue
                except _Break:
                    break
            else:
                self.exec_block(st.orelse, env)
            return
        if isinstance(st, ast.While):
            while self.truth(self.eval(st.test, env)):
                self.tick()
                try:
                    self.exec_block(st.body, env)
                except _Continue:
                    continue
                except _Break:
                    break
            else:
                self.exec_block(st.orelse, env)
            return
        if isinstance(st, (ast.FunctionDef, ast.AsyncFunctionDef)):
            unit = self.p.unit_of_node.get(id(st))
            if unit is None:
                raise AnalysisError(f'abstract interpretation: nested function {st.name} has no unit')
            env[st.name] = AFunc(unit, None, env)
            return
        if isinstance(st, ast.Continue):
            raise _Continue()
        if isinstance(st, ast.Break):
            raise _Break()
        if isinstance(st, ast.Pass):
            return
        if isinstance(st, ast.Raise):
            if st.exc is None:
                cur_exc = env.get('__current_exc__')
                if cur_exc is not None:
                    raise ARaise(cur_exc.what, cur_exc.obj)
                raise ARaise('RuntimeError (bare raise outside a handler)')
            exc = self.eval(st.exc, env)
            if isinstance(exc, AObj) and isinstance(exc.attrs.get('__what__'), str):
                raise ARaise(exc.attrs['__what__'], exc)
            raise ARaise(repr(exc), exc if isinstance(exc, AObj) else None)
        if isinstance(st, ast.With):
            # contextlib.suppress(...): exceptions of the listed classes end the block silently
            names = []
            managers: list = []
            for item in st.items:
                ce = item.context_expr
                if isinstance(ce, ast.Call) and (dotted(ce.func) or '').split('.')[-1] == 'suppress':
                    names = [(dotted(a) or '').split('.')[-1] for a in ce.args]
                else:
                    cm = self.eval(ce, env)
                    if isinstance(cm, AOneShot) and cm.gen_body is not None and len(st.items) == 1:
                        # a generator function used as a context manager (contextlib.contextmanager): its body is run with
                        # the with-body in the place of its single yield
                        self._exec_with_generator(st, item, cm, env)
                        return
                    if not (isinstance(cm, AObj) and '__enter__' in cm.attrs and '__exit__' in cm.attrs):
                        raise AnalysisError(f'abstract interpretation: unsupported with-item {unparse(ce)}')
                    managers.append(cm)
                    entered = self.call(cm.attrs['__enter__'], [], {}, ce)
                    if item.optional_vars is not None:
                        self.assign(item.optional_vars, entered, env)
            try:
                self.exec_block(st.body, env)
            except ARaise as ex:
                for cm in reversed(managers):
                    self.call(cm.attrs['__exit__'], [ex.obj if ex.obj is not None else ex.what, None, None], {}, None)
                if any(n in ex.what for n in names):
                    return
                raise
            except (_Return, _Break, _Continue):
                for cm in reversed(managers):
                    self.call(cm.attrs['__exit__'], [None, None, None], {}, None)
                raise
            for cm in reversed(managers):
                self.call(cm.attrs['__exit__'], [None, None, None], {}, None)
            return
        if isinstance(st, ast.Try):
            self._exec_try(st, env)
            return
        if isinstance(st, ast.AugAssign) and isinstance(st.target, ast.Name):
            cur = self.lookup(st.target.id, env)
            val = self.eval(st.value, env)
            if cur is TOP or val is TOP:
                env[st.target.id] = TOP
            elif isinstance(st.op, ast.Add) and isinstance(cur, (int, float)) and isinstance(val, (int, float)):
                env[st.target.id] = cur + val
            elif isinstance(st.op, ast.Sub) and isinstance(cur, (int, float)) and isinstance(val, (int, float)):
                env[st.target.id] = cur - val
            elif isinstance(cur, set) and isinstance(val, (set, frozenset)) and isinstance(st.op, (ast.BitOr, ast.BitAnd, ast.Sub, ast.BitXor)):
                # in place: other references to the set see the change
                if isinstance(st.op, ast.BitOr):
                    cur |= val
                elif isinstance(st.op, ast.BitAnd):
                    cur &= val
                elif isinstance(st.op, ast.Sub):
                    cur -= val
                else:
                    cur ^= val
            else:
                raise AnalysisError(f'abstract interpretation: unsupported augmented assignment {unparse(st)}')
            return
        if isinstance(st, ast.Delete):
            for tgt in st.targets:
                if isinstance(tgt, ast.Subscript):
                    cont = self.eval(tgt.value, env)
                    key = self.eval(tgt.slice, env)
                    d = self._dict_of(cont)
                    if key not in d:
                        raise ARaise('KeyError')
                    del d[key]
                    continue
                raise AnalysisError('abstract interpretation: unsupported delete')
            return
        raise AnalysisError(f'abstract interpretation: unsupported statement {type(st).__name__} in '
                            f'{env["__unit__"].fid}')

    def _dict_of(self, cont):
        if isinstance(cont, dict):
            return cont
        if isinstance(cont, AObj) and isinstance(cont.attrs.get('data'), dict):
            return cont.attrs['data']
        raise AnalysisError(f'abstract interpretation: item access on {cont!r}')

    def assign(self, tgt, v, env: dict) -> None:
        if isinstance(tgt, ast.Name):
            env[tgt.id] = v
            return
        if isinstance(tgt, (ast.Tuple, ast.List)):
            items = self._to_list(v)
            for t, x in zip(tgt.elts, items):
                self.assign(t, x, env)
            return
        if isinstance(tgt, ast.Subscript):
            cont = self.eval(tgt.value, env)
            key = self.eval(tgt.slice, env)
            if cont is TOP:
                return
            if isinstance(cont, list) and isinstance(key, int):
                if not -len(cont) <= key < len(cont):
                    raise ARaise('IndexError')
                cont[key] = v
                return
            self._dict_of(cont)[key] = v
            return
        if isinstance(tgt, ast.Attribute):
            obj = self.eval(tgt.value, env)
            if isinstance(obj, AObj):
                obj.attrs[self.mangle(tgt.attr, env)] = v
                return
            if isinstance(obj, AFunc):
                obj.attrs[tgt.attr] = v
                return
            if obj is TOP:
                return
        raise AnalysisError(f'abstract interpretation: unsupported assignment target {unparse(tgt)}')

    @staticmethod
    def mangle(attr: str, env: dict) -> str:
        unit = env.get('__unit__')
        if attr.startswith('__') and not attr.endswith('__') and unit is not None and unit.cls is not None:
            return f'_{unit.cls.name.lstrip("_")}{attr}'
        return attr

    # ------------------------------------------------------------------ expressions
    def lookup(self, name: str, env: dict):
        e = env
        while e is not None:
            if name in e:
                return e[name]
            e = e.get('__closure__')
        mod = env['__module__']
        if name == '__name__' and mod is not None:
            return mod.name
        res = self.p.resolve_global(mod, name)
        if res[0] == 'class':
            return AClass(res[1])
        if res[0] == 'func':
            return AFunc(res[1])
        if res[0] == 'value':
            return self._module_value(res[1], name, res[2])
        if res[0] == 'ext':
            return AExt(res[1]) if not self._is_ext_class(res[1]) else AClass(('ext', res[1]))
        if res[0] == 'module':
            return AExt(res[1])
        import builtins
        if hasattr(builtins, name):
            obj = getattr(builtins, name)
            if isinstance(obj, type):
                return AClass(('ext', f'builtins.{name}'))
            return AExt(f'builtins.{name}')
        raise AnalysisError(f'abstract interpretation: unknown name {name}')

    @staticmethod
    def _is_ext_class(name: str) -> bool:
        import builtins
        last = name.split('.')[-1]
        return isinstance(getattr(builtins, last, None), type) and name.startswith('builtins.')

    def getattr_(self, obj, attr: str, env: dict, node=None):
        if obj is TOP:
            return TOP
        real = self.mangle(attr, env)
        if (obj is None or (isinstance(obj, (str, int, float, bytes)) and not isinstance(obj, bool))) and attr.startswith('__') \
                and attr.endswith('__') and not hasattr(obj, attr):
            # a concrete value that is not a class / function: no __qualname__, __module__, __name__, __mro__ ...
            raise ARaise(f'AttributeError ({type(obj).__name__!r} object has no attribute {attr!r})')
        if isinstance(obj, AObj):
            if real in obj.attrs:
                return obj.attrs[real]
            if isinstance(obj.cls, tuple) and obj.cls[1] == 'created-class' and attr != '__bases__':
                # a class object modelled by its namespace: attributes missing there are inherited from its bases
                for base in obj.attrs.get('__bases__', ()):
                    if isinstance(base, AObj):
                        v = self.getattr_(base, attr, env, node)
                        if v is not TOP:
                            return v
            if obj.cls == ('ext', 're.Pattern') and attr in ('sub', 'subn', 'split', 'findall', 'match', 'fullmatch', 'search'):
                return AExt(f're.Pattern.{attr}', recv=obj)
            if attr in ('predecessors', 'successors', 'in_edges', 'out_edges', 'has_node', 'has_edge', 'add_node', 'add_edge',
                        'copy', 'subgraph') and 'edges' in obj.attrs and isinstance(obj.attrs['edges'], dict):
                return AExt(f'networkx.DiGraph.{attr}', recv=obj)           # an abstract graph given by its edge / node tables
            if isinstance(obj.cls, ClassInfo):
                m = self.p.lookup_method(obj.cls, attr, env['__unit__'].cls if env.get('__unit__') else None)
                if m is not None:
                    if m.is_property:
                        return self.call_unit(m, [], {}, obj)
                    if m.is_static:
                        return AFunc(m)
                    return AFunc(m, obj)
                f = self.p.lookup_field(obj.cls, attr)
                if f is not None and f[2] is not None:
                    owner, ann, default = f
                    if isinstance(default, ast.Call) and (dotted(default.func) or '').split('.')[-1] == 'field':
                        # dataclasses.field(default=..) / field(default_factory=..): the value a fresh instance would hold
                        menv = {'__module__': owner.module, '__unit__': None, '__closure__': None}
                        for kw in default.keywords:
                            if kw.arg == 'default':
                                obj.attrs[real] = self.eval(kw.value, menv)
                                return obj.attrs[real]
                            if kw.arg == 'default_factory':
                                obj.attrs[real] = self.call(self.eval(kw.value, menv), [], {}, kw.value)
                                return obj.attrs[real]
                        raise AnalysisError(f'abstract interpretation: field {attr} of {obj!r} not initialised')
                    return self._class_value(owner, attr, default)
                # methods of external base classes (UserDict)
                for ext in self.p.ext_bases(obj.cls):
                    if ext.split('.')[-1] == 'UserDict' and 'data' in obj.attrs:
                        return AExt(f'{ext}.{attr}', recv=obj.attrs['data'])
            return TOP
        if isinstance(obj, ASuper):
            # next class in the MRO after obj.cls
            mro = self.p.mro(obj.obj.cls)
            idx = mro.index(obj.cls) if obj.cls in mro else 0
            for c in mro[idx + 1:]:
                if isinstance(c, ClassInfo):
                    if attr in c.methods:
                        return AFunc(c.methods[attr], obj.obj)
                else:
                    if c[1].split('.')[-1] == 'UserDict' and 'data' in obj.obj.attrs:
                        return AExt(f'{c[1]}.{attr}', recv=obj.obj.attrs['data'])
                    return AExt(f'{c[1]}.{attr}', recv=None)
            return TOP
        if isinstance(obj, AClass):
            if self._is_enum(obj.ref):
                for m_ in self.enum_members(obj.ref):
                    if m_.attrs['name'] == attr:
                        return m_
            if isinstance(obj.ref, ClassInfo):
                f = self.p.lookup_field(obj.ref, attr)
                if f is not None and f[2] is not None:
                    return self._class_value(f[0], attr, f[2])
                m = self.p.lookup_method(obj.ref, attr)
                if m is not None:
                    return AFunc(m)
            return TOP
        if isinstance(obj, AExt):
            mod = self.p.modules.get(obj.name) if obj.recv is None else None
            if mod is not None:
                # an attribute of an in-repo module (`errors.SomeError`, `schema.Node`)
                res = self.p.resolve_global(mod, attr)
                if res[0] == 'class':
                    return AClass(res[1])
                if res[0] == 'func':
                    return AFunc(res[1])
                if res[0] == 'value':
                    return self._module_value(res[1], attr, res[2])
                if res[0] == 'module':
                    return AExt(res[1])
            return AExt(f'{obj.name}.{attr}', recv=obj.recv)
        if isinstance(obj, (dict, set, list, frozenset, tuple)):
            return AExt(f'builtins.{type(obj).__name__}.{attr}', recv=obj)
        if isinstance(obj, str) and attr in _STR_METHODS:
            return AExt(f'builtins.str.{attr}', recv=obj)
        if isinstance(obj, AFunc):
            if attr in obj.attrs:
                return obj.attrs[attr]
            if attr == '__annotations__':
                return obj.attrs.setdefault('__annotations__', {})
            return TOP
        if obj is None:
            raise ARaise('AttributeError')
        return TOP

    def eval(self, e: ast.AST, env: dict):
        self.tick()
        if isinstance(e, ast.Constant):
            return e.value
        if isinstance(e, ast.Name):
            return self.lookup(e.id, env)
        if isinstance(e, ast.Attribute):
            if e.attr in ('value', 'name') and isinstance(e.value, ast.Attribute) and not self.enum_objects:
                # <EnumClass>.<MEMBER>.value / .name while members are represented by their values
                base = self.eval(e.value.value, env)
                if isinstance(base, AClass) and isinstance(base.ref, ClassInfo) and e.value.attr in base.ref.fields \
                        and any(b_.split('.')[-1] in ('Enum', 'IntEnum', 'StrEnum', 'Flag') for b_ in self.p.ext_bases(base.ref)):
                    return e.value.attr if e.attr == 'name' else self.getattr_(base, e.value.attr, env, e.value)
            return self.getattr_(self.eval(e.value, env), e.attr, env, e)
        if isinstance(e, ast.Call):
            if isinstance(e.func, ast.Name) and e.func.id == 'super' and not e.args:
                return ASuper(env.get('__self__'), env['__unit__'].cls)
            f = self.eval(e.func, env)
            args = []
            for a in e.args:
                if isinstance(a, ast.Starred):
                    args.extend(self._to_list(self.eval(a.value, env)))
                else:
                    args.append(self.eval(a, env))
            kwargs = {}
            for k in e.keywords:
                if k.arg is None:
                    v = self.eval(k.value, env)
                    if isinstance(v, dict):
                        kwargs.update(v)
                    elif v is not TOP:
                        raise AnalysisError('abstract interpretation: ** of non-dict')
                else:
                    kwargs[k.arg] = self.eval(k.value, env)
            return self.call(f, args, kwargs, e)
        if isinstance(e, ast.Yield):
            if env.get('__cm_body__') is not None:
                # the generator of a @contextmanager: the with-body runs here; what it raises is raised at this yield
                run_body = env['__cm_body__']
                env['__cm_body__'] = None
                env['__cm_yielded__'] = True
                run_body(self.eval(e.value, env) if e.value is not None else None)
                return None
            if env.get('__cm_yielded__'):
                raise ARaise('RuntimeError (generator didn\'t stop)')
            if '__yields__' not in env:
                raise AnalysisError('abstract interpretation: yield outside a generator function')
            env['__yields__'].append(self.eval(e.value, env) if e.value is not None else None)
            if len(env['__yields__']) >= GEN_LIMIT:
                raise _GenTruncated()
            return None
        if isinstance(e, ast.YieldFrom):
            if '__yields__' not in env:
                raise AnalysisError('abstract interpretation: yield outside a generator function')
            env['__yields__'].extend(self._to_list(self.eval(e.value, env)))
            return None
        if isinstance(e, ast.BoolOp):
            # an unknown operand is decided once: the chosen outcome replaces it (no second, inconsistent choice)
            if isinstance(e.op, ast.And):
                v = True
                for x in e.values:
                    v = self.eval(x, env)
                    tv = self.truth(v)
                    if v is TOP:
                        v = tv
                    if not tv:
                        return v
                return v
            v = False
            for x in e.values:
                v = self.eval(x, env)
                tv = self.truth(v)
                if v is TOP:
                    v = tv
                if tv:
                    return v
            return v
        if isinstance(e, ast.UnaryOp) and isinstance(e.op, ast.Not):
            return not self.truth(self.eval(e.operand, env))
        if isinstance(e, ast.UnaryOp) and isinstance(e.op, ast.USub):
            v = self.eval(e.operand, env)
            return -v if isinstance(v, (int, float)) and not isinstance(v, bool) else TOP
        if isinstance(e, ast.Compare):
            left = self.eval(e.left, env)
            result = True
            for op, comp in zip(e.ops, e.comparators):
                right = self.eval(comp, env)
                r = self.compare(op, left, right)
                if not r:
                    return False
                left = right
            return result
        if isinstance(e, ast.IfExp):
            return self.eval(e.body, env) if self.truth(self.eval(e.test, env)) else self.eval(e.orelse, env)
        if isinstance(e, (ast.Tuple, ast.List, ast.Set)):
            items = []
            for x in e.elts:
                if isinstance(x, ast.Starred):
                    items.extend(self._to_list(self.eval(x.value, env)))
                else:
                    items.append(self.eval(x, env))
            return tuple(items) if isinstance(e, ast.Tuple) else (items if isinstance(e, ast.List) else set(items))
        if isinstance(e, ast.Dict):
            d = {}
            for k, v in zip(e.keys, e.values):
                if k is None:                   # {**other}
                    other = self.eval(v, env)
                    if isinstance(other, dict):
                        d.update(other)
                    elif other is not TOP:
                        raise AnalysisError('abstract interpretation: ** of non-dict in a dict display')
                else:
                    d[self.eval(k, env)] = self.eval(v, env)
            return d
        if isinstance(e, (ast.ListComp, ast.GeneratorExp, ast.SetComp)):
            if isinstance(e, ast.GeneratorExp):
                gholder: list = []

                def thunk(e=e, env=env):
                    acc: list = []
                    self._lazy_depth = getattr(self, '_lazy_depth', 0) + 1
                    saw, self._saw_truncated = getattr(self, '_saw_truncated', False), False
                    try:
                        self._comp(e, 0, env, acc)
                        if self._saw_truncated:
                            gholder[0].truncated = True
                    finally:
                        self._lazy_depth -= 1
                        self._saw_truncated = saw or self._saw_truncated
                    return acc
                gholder.append(AOneShot(thunk))
                return gholder[0]
            out: list = []
            self._comp(e, 0, env, out)
            return out if not isinstance(e, ast.SetComp) else set(out)
        if isinstance(e, ast.DictComp):
            pairs: list = []
            self._comp(e, 0, env, pairs)
            return dict(pairs)
        if isinstance(e, ast.Subscript):
            cont = self.eval(e.value, env)
            if isinstance(e.slice, ast.Slice):
                lo, hi, step = [self.eval(x, env) if x is not None else None for x in (e.slice.lower, e.slice.upper, e.slice.step)]
                if cont is TOP or any(x is TOP for x in (lo, hi, step)):
                    return TOP
                if isinstance(cont, (list, tuple, str)) and all(x is None or (isinstance(x, int) and not isinstance(x, bool)) for x in (lo, hi, step)):
                    return cont[slice(lo, hi, step)]
                raise AnalysisError(f'abstract interpretation: unsupported slice {unparse(e)}')
            key = self.eval(e.slice, env)
            if cont is TOP:
                return TOP
            if isinstance(cont, (list, tuple)):
                if not isinstance(key, int) or isinstance(key, bool):
                    raise AnalysisError(f'abstract interpretation: sequence index {key!r} ({unparse(e)})')
                if not -len(cont) <= key < len(cont):
                    raise ARaise('IndexError')
                return cont[key]
            if isinstance(cont, str) and isinstance(key, int) and not isinstance(key, bool):
                if not -len(cont) <= key < len(cont):
                    raise ARaise('IndexError')
                return cont[key]
            d = self._dict_of(cont)
            if key not in d:
                raise ARaise('KeyError')
            return d[key]
        if isinstance(e, ast.Lambda):
            lu = self.p.unit_of_node.get(id(e))
            if lu is None:
                # a lambda outside any function body (a class-level default factory, a decorator argument): indexed on demand
                mod_ = env.get('__module__')
                if mod_ is None:
                    raise AnalysisError('abstract interpretation: a lambda outside a module')
                fid = f'{mod_.name}::<lambda@{getattr(e, "lineno", 0)}:{getattr(e, "col_offset", 0)}>'
                lu = FuncUnit(fid, '<lambda>', e, mod_, None, None, False)
                self.p.functions.setdefault(fid, lu)
                self.p.unit_of_node[id(e)] = lu
            return AFunc(lu, None, env)
        if isinstance(e, ast.JoinedStr):
            parts = []
            for v in e.values:
                if isinstance(v, ast.Constant):
                    parts.append(str(v.value))
                elif isinstance(v, ast.FormattedValue) and v.format_spec is None and v.conversion == -1:
                    x = self.eval(v.value, env)
                    if not isinstance(x, (str, int)) or isinstance(x, bool):
                        return TOP
                    parts.append(str(x))
                else:
                    return TOP
            return ''.join(parts)
        if isinstance(e, ast.Await):
            return self.eval(e.value, env)
        if isinstance(e, ast.BinOp) and isinstance(e.op, ast.Div) and 'operator.truediv' in self.ext_stubs:
            return self.ext_stubs['operator.truediv']([self.eval(e.left, env), self.eval(e.right, env)], {})
        if isinstance(e, ast.BinOp) and isinstance(e.op, (ast.BitOr, ast.BitAnd, ast.BitXor, ast.Sub)):
            a, b = self.eval(e.left, env), self.eval(e.right, env)
            if isinstance(a, (set, frozenset)) and isinstance(b, (set, frozenset)):
                if isinstance(e.op, ast.BitOr):
                    return set(a) | set(b)
                if isinstance(e.op, ast.BitAnd):
                    return set(a) & set(b)
                if isinstance(e.op, ast.BitXor):
                    return set(a) ^ set(b)
                return set(a) - set(b)
            if isinstance(e.op, ast.BitOr) and isinstance(a, dict) and isinstance(b, dict):
                return {**a, **b}
            if isinstance(e.op, ast.Sub) and isinstance(a, int) and isinstance(b, int):
                return a - b
            return TOP
        if isinstance(e, ast.BinOp) and isinstance(e.op, (ast.Add, ast.Sub, ast.Mod)):
            a, b = self.eval(e.left, env), self.eval(e.right, env)
            if isinstance(e.op, ast.Add) and ((isinstance(a, str) and isinstance(b, str)) or
                                              (isinstance(a, int) and isinstance(b, int) and not isinstance(a, bool))):
                return a + b
            if isinstance(e.op, ast.Add) and isinstance(a, (list, tuple)) and type(a) is type(b):
                return a + b
            if isinstance(e.op, ast.Sub) and isinstance(a, int) and isinstance(b, int):
                return a - b
            return TOP
        raise AnalysisError(f'abstract interpretation: unsupported expression {type(e).__name__}: {unparse(e)}')

    def _comp(self, e, idx: int, env: dict, out: list) -> None:
        gen = e.generators[idx]
        for item in self._to_list(self.eval(gen.iter, env)):
            inner = dict(env)
            inner['__closure__'] = env
            self.assign(gen.target, item, inner)
            if all(self.truth(self.eval(c, inner)) for c in gen.ifs):
                if idx + 1 < len(e.generators):
                    self._comp(e, idx + 1, inner, out)
                elif isinstance(e, ast.DictComp):
                    out.append((self.eval(e.key, inner), self.eval(e.value, inner)))
                else:
                    out.append(self.eval(e.elt, inner))

    def compare(self, op, a, b) -> bool:
        if isinstance(op, (ast.In, ast.NotIn)):
            if b is TOP or a is TOP:
                r = self.oracle.choose()
            elif isinstance(b, AObj) and isinstance(b.attrs.get('data'), dict):
                r = a in b.attrs['data']
            elif isinstance(b, (dict, set, list, tuple, frozenset)):
                r = a in b
            elif isinstance(b, AObj) and isinstance(b.attrs.get('nodes'), (dict, set, list, tuple)):
                r = a in b.attrs['nodes']                  # `node in graph`
            else:
                raise AnalysisError(f'abstract interpretation: membership in {b!r}')
            return r if isinstance(op, ast.In) else not r
        if isinstance(op, (ast.Is, ast.IsNot)):
            if a is TOP or b is TOP:
                r = self.oracle.choose()
            else:
                r = a is b or (isinstance(a, (bool, int, str, type(None))) and isinstance(b, type(a)) and a == b and type(a) is type(b))
            return r if isinstance(op, ast.Is) else not r
        if isinstance(op, (ast.Eq, ast.NotEq)):
            if a is TOP or b is TOP:
                r = self.oracle.choose()
            else:
                r = a == b
            return r if isinstance(op, ast.Eq) else not r
        if isinstance(op, (ast.Lt, ast.LtE, ast.Gt, ast.GtE)):
            if a is TOP or b is TOP:
                return self.oracle.choose()
            num = lambda x: isinstance(x, (int, float)) and not isinstance(x, bool)      # noqa: E731
            if (num(a) and num(b)) or (isinstance(a, str) and isinstance(b, str)):
                return {ast.Lt: a < b, ast.LtE: a <= b, ast.Gt: a > b, ast.GtE: a >= b}[type(op)]
            if a is None or b is None:
                raise ARaise('TypeError (ordering comparison with None)')
            raise AnalysisError(f'abstract interpretation: ordering of {a!r} and {b!r}')
        raise AnalysisError(f'abstract interpretation: unsupported comparison {type(op).__name__}')


_STR_METHODS = {'split', 'rsplit', 'join', 'replace', 'startswith', 'endswith', 'lower', 'upper', 'strip', 'lstrip', 'rstrip',
                'partition', 'rpartition', 'removeprefix', 'removesuffix', 'title', 'capitalize'}


def _is_generator(fn: ast.AST) -> bool:
    todo = list(getattr(fn, 'body', []))
    while todo:
        n = todo.pop()
        if isinstance(n, (ast.Yield, ast.YieldFrom)):
            return True
        if isinstance(n, (ast.FunctionDef, ast.AsyncFunctionDef, ast.Lambda, ast.ClassDef)):
            continue
        todo.extend(ast.iter_child_nodes(n))
    return False


class _EndlessType:
    pass


_Endless = _EndlessType()


class _Continue(Exception):
    pass


class _Break(Exception):
    pass


# ---------------------------------------------------------------------------------------------
# Abstract store construction
# ---------------------------------------------------------------------------------------------

VALUE_CLASSES = ('NONE', 'FALSY', 'TRUTHY', 'EXC', 'REC')
PRESENCE = ('absent', 'hidden', 'visible')


def value_token(p: Program, name: str):
    if name == 'NONE':
        return None
    if name == 'FALSY':
        return 0
    if name == 'TRUTHY':
        return 1
    if name == 'EXC':
        return AObj(('ext', 'builtins.ValueError'), {'args': ()}, tag='EXC')
    if name == 'REC':
        for ci in p.classes_by_name.get('Recurrent', []):
            return AObj(ci, {'data': None}, tag='REC')
        raise AnalysisError('class Recurrent not found')
    raise ValueError(name)


def key_states() -> List[Tuple[str, Optional[str]]]:
    out: List[Tuple[str, Optional[str]]] = [('absent', None)]
    for pres in ('hidden', 'visible'):
        for v in VALUE_CLASSES:
            out.append((pres, v))
    return out


_HD_API: Dict[int, Dict[str, FuncUnit]] = {}
_HD_KEEP: List[Any] = []


def hidden_dict_api(p: Program, ci: ClassInfo) -> Dict[str, FuncUnit]:
    """The operations of the hiding dictionary class, found by what they do (interpreted on a one-key object), not by their
    names: publish(key, value) puts the key into the UserDict data; hide(key) leaves the data alone and makes the key invisible
    to exists(key, False); exists(key, with_hidden) is the two-argument predicate that tells the three states apart."""
    if id(ci) in _HD_API:
        return _HD_API[id(ci)]
    _HD_KEEP.append(ci)

    def fresh() -> AObj:
        reset_world()
        obj = AObj(ci, {'data': {}})
        init = p.lookup_method(ci, '__init__')
        if init is not None:
            Interp(p, Oracle()).call_unit(init, [], {}, obj)
        return obj

    def npos(m: FuncUnit) -> int:
        a = m.node.args
        return len(a.args) - 1

    def try_call(m, obj, args):
        try:
            return ('value', Interp(p, Oracle()).call_unit(m, list(args), {}, obj))
        except ARaise as ex:
            return ('raise', ex.what)
        except AnalysisError as ex:
            return ('undecided', str(ex))

    methods = [m for m in ci.methods.values() if not m.name.startswith('__')]
    api: Dict[str, FuncUnit] = {}
    for m in methods:
        if npos(m) == 2:
            obj = fresh()
            r = try_call(m, obj, ['K', 7])
            if r[0] == 'value' and obj.attrs['data'].get('K') == 7:
                api.setdefault('publish', m)
    if 'publish' not in api:
        raise AnalysisError(f'{ci.name}: no publishing method (key, value) found (storage-world anchor vanished)')

    def published() -> AObj:
        obj = fresh()
        Interp(p, Oracle()).call_unit(api['publish'], ['K', 7], {}, obj)
        return obj
    # exists: (key, flag) -> bool, true for a published key under both flags, false for an absent key
    cands = []
    for m in methods:
        if npos(m) == 2 and m is not api['publish']:
            r1, r2 = try_call(m, published(), ['K', False]), try_call(m, published(), ['K', True])
            r3 = try_call(m, fresh(), ['K', True])
            if r1 == ('value', True) and r2 == ('value', True) and r3 == ('value', False):
                cands.append(m)
    # hide: (key) -> data unchanged, exists(key, False) turns false, exists(key, True) stays true
    for m in methods:
        if npos(m) == 1:
            for ex_ in cands:
                obj = published()
                r = try_call(m, obj, ['K'])
                if r[0] == 'value' and obj.attrs['data'].get('K') == 7 \
                        and try_call(ex_, obj, ['K', False]) == ('value', False) and try_call(ex_, obj, ['K', True]) == ('value', True):
                    api.setdefault('hide', m)
                    api.setdefault('exists', ex_)
    if 'hide' not in api or 'exists' not in api:
        raise AnalysisError(f'{ci.name}: hide(key) / exists(key, with_hidden) not found (storage-world anchor vanished)')
    # delete: (key) -> the key leaves the data
    for m in methods:
        if npos(m) == 1 and m is not api['hide']:
            obj = published()
            r = try_call(m, obj, ['K'])
            if r[0] == 'value' and 'K' not in obj.attrs['data']:
                api.setdefault('delete', m)
    _HD_API[id(ci)] = api
    return api


def make_hidden_dict(p: Program, ci: ClassInfo, content: Dict[str, Tuple[str, Any]]) -> AObj:
    """content: key -> (presence, value).  The object is built through the class's own constructor and operations."""
    api = hidden_dict_api(p, ci)
    obj = AObj(ci, {'data': {}})
    init = p.lookup_method(ci, '__init__')
    interp = Interp(p, Oracle())
    if init is not None:
        interp.call_unit(init, [], {}, obj)
    for k, (pres, val) in content.items():
        if pres == 'absent':
            continue
        interp.call_unit(api['publish'], [k, val], {}, obj)
        if pres == 'hidden':
            interp.call_unit(api['hide'], [k], {}, obj)
    return obj


def make_storage(p: Program, storage_cls: ClassInfo, contents: Dict[str, Dict[str, Tuple[str, Any]]]) -> AObj:
    obj = AObj(storage_cls, {})
    for name, (ann, default) in storage_cls.fields.items():
        t = p.ann_to_type(ann, storage_cls.module) if ann is not None else None
        if t and t[0] == 'class':
            obj.attrs[name] = make_hidden_dict(p, t[1], contents.get(name, {}))
    return obj


def presence_of(hd: AObj, key, p: Optional[Program] = None) -> str:
    if key not in hd.attrs['data']:
        return 'absent'
    if p is None:
        raise AnalysisError('presence_of: the program is needed to ask the dictionary itself')
    api = hidden_dict_api(p, hd.cls)
    visible = Interp(p, Oracle()).call_unit(api['exists'], [key, False], {}, hd)
    return 'visible' if visible is True else 'hidden'
