"""Write effects and ownership roots.

For every write event of an (inlined) graph - item/attribute stores, deletes, augmented assignments,
calls of mutating methods - the written object is expressed as a term of the root activation and
classified by its *root*:

  per-run : reached from the run manager instance through fields that every instance creates for
            itself (dataclass default_factory / init=False + fresh assignment in __post_init__)
  fresh   : an object created by the activation itself (literal, constructor, copy, subgraph ...)
  shared  : anything reached through the DAG, the chart, the caller's dictionaries, a module global,
            a class attribute, a registry singleton
  unknown : the root cannot be determined (reported, makes the instance UNDECIDED)

Local variables with several definitions are resolved flow-sensitively: only the definitions that
reach the write on some CFG path are considered.
"""
from __future__ import annotations

import ast
from typing import Dict, List, Optional, Tuple

from . import sym
from .cfg import Ev, Graph
from .program import ClassInfo, FuncEnv, Program, dotted, unparse

MUTATORS = {'append', 'add', 'update', 'pop', 'clear', 'setdefault', 'remove', 'extend', 'insert', 'discard',
            'popitem', 'sort', 'reverse', 'appendleft', 'popleft', 'set', 'hide', 'delete',
            'add_node', 'add_edge', 'add_nodes_from', 'add_edges_from', 'remove_node', 'remove_edge',
            'remove_nodes_from', 'remove_edges_from', '__setitem__', '__delitem__', 'setdefault'}
MUTATING_FUNCS = {'networkx.set_node_attributes': 0, 'networkx.set_edge_attributes': 0, 'setattr': 0,
                  'builtins.setattr': 0, 'builtins.delattr': 0, 'networkx.relabel_nodes': 0}
FRESH_CALLS = {'builtins.dict', 'builtins.list', 'builtins.set', 'builtins.tuple', 'builtins.frozenset',
               'builtins.sorted', 'copy.copy', 'copy.deepcopy', 'networkx.subgraph_view', 'builtins.str',
               'collections.defaultdict', 'collections.deque', 'builtins.enumerate', 'builtins.reversed',
               'builtins.zip', 'builtins.map', 'builtins.filter'}
FRESH_METHODS = {'copy', 'subgraph', 'keys', 'values', 'items', 'split', 'format', 'intersection', 'union',
                 'difference', 'edge_subgraph', 'reverse_view', 'to_directed'}


# networkx facts: these calls return a *view*; a view has its own instance attributes but shares the attribute dictionary
# `.graph` with the graph it was taken from, and the property `Graph.name` is stored in that dictionary
ELEMENT_ACCESSORS = {'get', 'setdefault', 'pop', 'popitem', '__getitem__'}
VIEW_METHODS = {'subgraph', 'edge_subgraph', 'reverse_view', 'subgraph_view', 'restricted_view'}


def per_instance_fields(p: Program, ci: ClassInfo) -> Dict[str, str]:
    """Fields of a (dataclass) whose value is created for each instance: name -> reason."""
    out: Dict[str, str] = {}
    for c in p.mro(ci):
        if not isinstance(c, ClassInfo):
            continue
        for name, (ann, default) in c.fields.items():
            if name in out:
                continue
            if isinstance(default, ast.Call) and (dotted(default.func) or '').split('.')[-1] == 'field':
                kws = {k.arg: k.value for k in default.keywords}
                if 'default_factory' in kws:
                    out[name] = 'default_factory'
                elif 'init' in kws and isinstance(kws['init'], ast.Constant) and kws['init'].value is False:
                    # must be assigned a fresh object in __post_init__
                    post = c.methods.get('__post_init__')
                    if post is not None:
                        for n in ast.walk(post.node):
                            if isinstance(n, ast.Assign) and len(n.targets) == 1:
                                t = n.targets[0]
                                if isinstance(t, ast.Attribute) and t.attr == name and isinstance(n.value, ast.Call):
                                    out[name] = 'created in __post_init__'
        # plain classes: attributes assigned from constructor calls / literals in __init__
        init = c.methods.get('__init__')
        if init is not None:
            for n in ast.walk(init.node):
                if isinstance(n, (ast.Assign, ast.AnnAssign)):
                    tgts = n.targets if isinstance(n, ast.Assign) else [n.target]
                    for t in tgts:
                        if isinstance(t, ast.Attribute) and isinstance(t.value, ast.Name) and t.value.id == 'self' \
                                and n.value is not None and isinstance(n.value, (ast.Call, ast.Dict, ast.List, ast.Set,
                                                                                  ast.ListComp, ast.DictComp, ast.SetComp)):
                            if isinstance(n.value, ast.Call):
                                fn = (dotted(n.value.func) or '')
                                if fn.split('.')[-1] in ('get_instance',):
                                    continue
                            out.setdefault(t.attr, 'created in __init__')
    return out


class Ownership:
    def __init__(self, ctx) -> None:
        self.ctx = ctx
        self.p: Program = ctx.p
        self._pif: Dict[int, Dict[str, str]] = {}
        self._taints: Optional[Dict[str, List[Tuple[str, str]]]] = None
        self._computing_taints = False

    # ------------------------------------------------------------------ containers that hold shared objects
    def container_taints(self) -> Dict[str, List[Tuple[str, str]]]:
        """'self.<field>' of a per-run class -> the shared objects some method of the class stores in it as an element
        (`self.f[k] = shared`, `self.f.setdefault(k, shared)`, `.append(shared)` ...): an element read back from such a
        container may be that shared object, although the container itself belongs to the run."""
        if self._taints is not None:
            return self._taints
        if self._computing_taints:
            return {}
        self._computing_taints = True
        taints: Dict[str, List[Tuple[str, str]]] = {}
        try:
            for ci in self._per_run_classes():
                for m in ci.methods.values():
                    if isinstance(m.node, ast.Lambda):
                        continue
                    g = self.ctx.graph(m.fid, depth=1)
                    for ev in g.evs:
                        if ev.inst is not g.root_inst:
                            continue
                        cont = val = None
                        if ev.kind == 'store' and ev.info.get('how') == 'item':
                            cont, val = ev.info['target'].value, ev.info.get('value')
                        elif ev.kind == 'call' and isinstance(ev.node, ast.Call) and isinstance(ev.node.func, ast.Attribute) \
                                and ev.node.func.attr in ('setdefault', 'append', 'add', 'insert', 'appendleft') and ev.node.args:
                            cont, val = ev.node.func.value, ev.node.args[-1]
                        if cont is None or val is None:
                            continue
                        ct = sym.term(self.p, cont, ev.inst)
                        if not (isinstance(ct, tuple) and ct and ct[0] == 'attr' and isinstance(ct[1], tuple) and ct[1][:1] == ('param',)):
                            continue
                        shared = [(c, r) for c, r in self.classify(g, ev, val) if c.startswith('shared')]
                        if shared:
                            taints.setdefault(f'{ct[1][1]}.{ct[2]}', []).extend(
                                (c, f'{r} (kept in {ct[1][1]}.{ct[2]} by {m.qualname})') for c, r in shared)
        finally:
            self._computing_taints = False
        self._taints = taints
        return taints

    def pif(self, ci: ClassInfo) -> Dict[str, str]:
        if id(ci) not in self._pif:
            self._pif[id(ci)] = per_instance_fields(self.p, ci)
        return self._pif[id(ci)]

    # ------------------------------------------------------------------ write events
    def write_events(self, g: Graph) -> List[Tuple[Ev, ast.AST, str]]:
        """(event, expression of the written object, description)"""
        out = []
        for ev in g.evs:
            if ev.kind == 'store':
                tgt = ev.info['target']
                out.append((ev, tgt.value, 'item store' if ev.info['how'] == 'item' else f'attribute store .{tgt.attr}'))
            elif ev.kind == 'del':
                tgt = ev.info['target']
                if isinstance(tgt, (ast.Subscript, ast.Attribute)):
                    out.append((ev, tgt.value, 'delete'))
            elif ev.kind == 'call' and not ev.info.get('inlined') and not ev.info.get('coro'):
                c = ev.node
                if not isinstance(c, ast.Call):
                    continue
                names = [t[1] for t in ev.info.get('targets', ()) if t[0] == 'ext']
                hit = None
                for n in names:
                    if n in MUTATING_FUNCS:
                        hit = n
                if hit is not None and c.args:
                    out.append((ev, c.args[MUTATING_FUNCS[hit]], f'{hit}(...)'))
                    continue
                if isinstance(c.func, ast.Attribute) and c.func.attr in MUTATORS:
                    # in-repo methods are expanded (their primitive writes are found inside); only
                    # unexpanded calls count here: external containers, cut calls
                    if any(t[0] == 'func' for t in ev.info.get('targets', ())) and ev.info.get('cut') is None:
                        continue
                    out.append((ev, c.func.value, f'.{c.func.attr}(...)'))
        return out

    # ------------------------------------------------------------------ classification
    def classify(self, g: Graph, ev: Ev, obj: ast.AST, through_views: bool = False) -> List[Tuple[str, str]]:
        """-> list of (class, human readable root); several when a local has several reaching defs.  With through_views a
        graph view is classified like the graph it was taken from (for writes that land in the shared attribute dictionary)."""
        t = sym.term(self.p, obj, ev.inst)
        self._views = through_views
        try:
            return self._classify_term(g, ev, t, obj, ev.inst, 0)
        finally:
            self._views = False

    def _classify_term(self, g, ev, t, obj, inst, depth) -> List[Tuple[str, str]]:
        if depth > 12:
            return [('unknown', sym.show(t))]
        k = t[0] if isinstance(t, tuple) and t else None
        shown = sym.show(t)
        if k in ('dict', 'comp', 'tuple', 'new', 'fstr', 'const', 'lambda'):
            return [('fresh', shown)]
        if k == 'global':
            return [('shared:global', shown)]
        if k == 'param':
            return self._classify_path(g, t, [])
        if k in ('attr', 'prop', 'idx', 'elem', 'item'):
            # walk to the root collecting the attribute path
            path = []
            cur = t
            while isinstance(cur, tuple) and cur and cur[0] in ('attr', 'prop', 'idx', 'elem', 'item', 'ctx'):
                if cur[0] in ('attr', 'prop'):
                    path.append(cur[2])
                else:
                    path.append('[]')
                cur = cur[1]
            path.reverse()
            if isinstance(cur, tuple) and cur and cur[0] == 'param':
                return self._classify_path(g, cur, path)
            res = self._classify_term(g, ev, cur, obj, inst, depth + 1)
            # a component of a fresh container may still be a shared object only if it was put there;
            # elements of fresh copies of shared containers (list(x)) are the shared elements themselves
            out = []
            for cls, root in res:
                if cls == 'fresh' and '[]' in path and isinstance(cur, tuple) and cur[0] == 'call':
                    # list(shared)[i] -> element of the shared container
                    inner = self._first_arg_class(g, ev, cur, inst, depth)
                    if inner:
                        out.extend(inner)
                        continue
                out.append((cls, root + ''.join('.' + x if x != '[]' else '[]' for x in path)))
            return out
        if k == 'call':
            name = t[1]
            if name.startswith('ext:'):
                ext = name[4:]
                last = ext.split('.')[-1]
                if getattr(self, '_views', False) and last in VIEW_METHODS and t[2]:
                    return self._classify_term(g, ev, t[2][0], obj, inst, depth + 1)
                if ext in FRESH_CALLS or last in FRESH_METHODS:
                    return [('fresh', shown)]
                # accessor of a container: the receiver decides (d.get(k), G.nodes[..].get(..)); what it hands out is an element
                if t[2]:
                    if last in ELEMENT_ACCESSORS:
                        return self._classify_term(g, ev, ('elem', t[2][0]), obj, inst, depth + 1)
                    return self._classify_term(g, ev, t[2][0], obj, inst, depth + 1)
                return [('unknown', shown)]
            if name.startswith('?'):
                if t[2]:
                    if name.lstrip('?').split('.')[-1] in ELEMENT_ACCESSORS:
                        return self._classify_term(g, ev, ('elem', t[2][0]), obj, inst, depth + 1)
                    return self._classify_term(g, ev, t[2][0], obj, inst, depth + 1)
                return [('unknown', shown)]
            unit = self.p.functions.get(name)
            if unit is not None:
                # the return value of an in-repo function: classify its return expressions
                return self._classify_returns(g, ev, unit, t, inst, depth)
            return [('unknown', shown)]
        if k == 'local':
            # flow-sensitive: definitions of the local that reach this event
            name = t[2]
            defs = self._reaching_defs(g, ev, name)
            if not defs:
                return [('unknown', shown)]
            out = []
            for dev in defs:
                val = dev.info.get('value')
                if val is None:
                    out.append(('unknown', shown))
                    continue
                vt = sym.term(self.p, val, dev.inst)
                if vt == t:
                    out.append(('unknown', shown))
                    continue
                out.extend(self._classify_term(g, dev, vt, val, dev.inst, depth + 1))
            return out
        if k in ('ifexp',):
            return self._classify_term(g, ev, t[2], obj, inst, depth + 1) + self._classify_term(g, ev, t[3], obj, inst, depth + 1)
        if k in ('or', 'and'):
            out = []
            for part in t[1]:
                out.extend(self._classify_term(g, ev, part, obj, inst, depth + 1))
            return out
        if k == 'ctx':
            return self._classify_term(g, ev, t[1], obj, inst, depth + 1)
        if k in ('param@', 'unbound'):
            return [('unknown', shown)]
        return [('unknown', shown)]

    def _first_arg_class(self, g, ev, callterm, inst, depth):
        if callterm[2]:
            res = self._classify_term(g, ev, callterm[2][0], None, inst, depth + 1)
            if any(c.startswith('shared') for c, _ in res):
                return res
        return None

    def _classify_returns(self, g, ev, unit, callterm, inst, depth):
        rets = [n for n in FuncEnv.of(self.p, unit).own_nodes() if isinstance(n, ast.Return) and n.value is not None]
        if not rets:
            return [('fresh', sym.show(callterm))]
        out = []
        from .cfg import Builder, Inst
        for r in rets:
            v = r.value
            if isinstance(v, (ast.Dict, ast.List, ast.Set, ast.ListComp, ast.DictComp, ast.SetComp, ast.Constant,
                              ast.JoinedStr, ast.Tuple)):
                out.append(('fresh', sym.show(callterm)))
                continue
            if isinstance(v, ast.Call):
                # a constructor call (also through a local that holds the class) or a copying built-in: a new object
                tg = FuncEnv.of(self.p, unit).resolve_call(v)
                if tg and all(t_[0] == 'class' or (t_[0] == 'ext' and t_[1] in FRESH_CALLS) for t_ in tg):
                    out.append(('fresh', sym.show(callterm)))
                    continue
            # evaluate the return expression in a pseudo activation bound to the call's argument terms is
            # not possible from terms alone; fall back to the declared receiver: methods returning parts
            # of self are classified by the receiver
            if callterm[2]:
                out.extend(self._classify_term(g, ev, callterm[2][0], None, inst, depth + 1))
            else:
                out.append(('unknown', sym.show(callterm)))
        return out

    def _reaching_defs(self, g: Graph, ev: Ev, name: str) -> List[Ev]:
        """Assignments to `name` (same activation) that reach `ev` backwards without an intervening
        assignment."""
        seen = {ev.id}
        stack = [ev.id]
        out = []
        while stack:
            n = stack.pop()
            for m, lab in g.pred.get(n, ()):
                if m in seen:
                    continue
                seen.add(m)
                mev = g.evs[m]
                if mev.kind == 'assign' and mev.inst is ev.inst and mev.info.get('name') == name:
                    out.append(mev)
                    continue
                stack.append(m)
        return out

    def _classify_path(self, g: Graph, root_t, path: List[str]) -> List[Tuple[str, str]]:
        """Root is a parameter of the root activation; `path` the attribute path below it."""
        pname = root_t[1]
        unit = g.root
        shown = pname + ''.join('.' + x if x != '[]' else '[]' for x in path)
        params = unit.params()
        is_self = bool(params) and pname == params[0] and unit.cls is not None and not unit.is_static
        if not is_self:
            # other parameters of the root: objects handed in by the caller
            if not path:
                return [('param', shown)]
            return [('shared:param', shown)]
        ci = unit.cls
        owner = self._owner_kind(ci)
        cur_cls = ci
        per_run = owner == 'per-run'
        if not path:
            return [('per-run' if per_run else 'shared:self', shown)]
        tainted: List[Tuple[str, str]] = []
        for i, seg in enumerate(path):
            if seg == '[]':
                # element of a per-instance container: owned by the instance - unless a shared object was put there
                held = self.container_taints().get(pname + ''.join('.' + x for x in path[:i] if x != '[]'))
                if held:
                    tainted.extend(held)
                continue
            if cur_cls is None:
                break
            pif = self.pif(cur_cls)
            if per_run and seg in pif:
                # descend into the field's class if known
                f = self.p.lookup_field(cur_cls, seg)
                nxt = None
                if f is not None and f[1] is not None:
                    ft = self.p.ann_to_type(f[1], f[0].module)
                    if ft[0] == 'class':
                        nxt = ft[1]
                cur_cls = nxt
                continue
            if per_run:
                # a *declared* field the instance did not create (dag, ctx ...) was handed in from outside;
                # an attribute the class does not declare at all (UserDict.data, attributes of external
                # bases) is part of the object itself
                declared = self.p.lookup_field(cur_cls, seg) is not None or self._init_param_field(cur_cls, seg)
                if not declared:
                    cur_cls = None
                    continue
                return [(f'shared:{seg}', shown)]
            return [('shared:self', shown)]
        return tainted + [('per-run', shown)]

    def _init_param_field(self, ci: ClassInfo, name: str) -> bool:
        """self.<name> = <parameter> in __init__: the object comes from the caller."""
        for c in self.p.mro(ci):
            if not isinstance(c, ClassInfo):
                continue
            init = c.methods.get('__init__')
            if init is None:
                continue
            params = set(init.params())
            for n in ast.walk(init.node):
                if isinstance(n, (ast.Assign, ast.AnnAssign)):
                    tgts = n.targets if isinstance(n, ast.Assign) else [n.target]
                    for t in tgts:
                        if isinstance(t, ast.Attribute) and isinstance(t.value, ast.Name) and t.value.id == 'self' and t.attr == name:
                            v = n.value
                            if isinstance(v, ast.Name) and v.id in params:
                                return True
                            if isinstance(v, ast.IfExp) and isinstance(v.body, ast.Name) and v.body.id in params:
                                return True
        return False

    def _per_run_classes(self) -> List[ClassInfo]:
        mgr = self.ctx.manager_class()
        out = [mgr]
        work = [mgr]
        while work:
            c = work.pop()
            for name in self.pif(c):
                f = self.p.lookup_field(c, name)
                if f is not None and f[1] is not None:
                    ft = self.p.ann_to_type(f[1], f[0].module)
                    if ft[0] == 'class' and ft[1] not in out:
                        out.append(ft[1])
                        work.append(ft[1])
        return out

    def _owner_kind(self, ci: ClassInfo) -> str:
        """per-run if instances of the class are created per run (manager, its storage, locks, context)."""
        mgr = self.ctx.manager_class()
        per_run_classes = {mgr}
        # classes of per-instance fields of the manager, transitively
        work = [mgr]
        while work:
            c = work.pop()
            for name in self.pif(c):
                f = self.p.lookup_field(c, name)
                if f is not None and f[1] is not None:
                    ft = self.p.ann_to_type(f[1], f[0].module)
                    if ft[0] == 'class' and ft[1] not in per_run_classes:
                        per_run_classes.add(ft[1])
                        work.append(ft[1])
        if ci in per_run_classes or any(isinstance(c, ClassInfo) and c in per_run_classes for c in self.p.mro(ci)):
            return 'per-run'
        return 'shared'
