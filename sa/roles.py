"""Role discovery: which events are WAIT / NOTIFY / SPAWN / PUBLISH / BODY / COLLAB ...

Roles are found from what the code does (the primitive it finally calls, the object it finally
writes), not from function names, so renames, moved or inlined helpers do not matter.
"""
from __future__ import annotations

import ast
from typing import Dict, List, Optional, Tuple

from . import sym
from .cfg import Builder, Ev, FaultPolicy, Graph, Inst
from .program import AnalysisError, FuncEnv, FuncUnit, Program, dotted, unparse

SPAWN_EXT = {'asyncio.create_task', 'asyncio.ensure_future', 'asyncio.AbstractEventLoop.create_task',
             'asyncio.get_running_loop().create_task', 'asyncio.get_event_loop().create_task',
             'asyncio.tasks.create_task'}
GATHER_EXT = {'asyncio.gather', 'asyncio.wait', 'asyncio.wait_for', 'asyncio.as_completed', 'asyncio.shield'}
RAISING_EXT_SUFFIX = ('.run_in_executor',)
SLEEP_EXT = {'asyncio.sleep'}

# Protocols whose implementations are supplied by the user (collaborators): calls through them are
# fault sources.  Found by reading types.py; frozen.
COLLAB_PROTOCOLS = {'ArtifactStoreLike', 'EventManagerLike'}
# Protocols implemented by user node classes: calls through them run node code
NODE_PROTOCOLS = {'NodeBase', 'RetryProtocol', 'RecurrentProtocol'}


def ext_names(ev: Ev) -> List[str]:
    return [t[1] for t in ev.info.get('targets', ()) if t[0] == 'ext']


def is_ext(ev: Ev, *suffixes: str) -> bool:
    if ev.kind != 'call':
        return False
    for n in ext_names(ev):
        for s in suffixes:
            if n == s or n.endswith(s):
                return True
    return False


class RunFaults(FaultPolicy):
    """Fault model of the run path: user code raises (node bodies, node constructors, event managers,
    artifact stores), the executor relays a body's exception, explicit `raise`s.  Library calls
    (logging, networkx, storage accessors) are assumed total."""

    def __init__(self, program: Program, faulty_subscripts: Optional[set] = None) -> None:
        self.p = program
        self.faulty_subscripts = faulty_subscripts or set()

    def call_may_raise(self, builder, call, targets, inst, awaited) -> bool:
        for t in targets:
            if t[0] == 'proto':
                # only user-implemented protocols are fault sources (collaborators, node code, a custom
                # context, a custom entrypoint); engine-internal protocols (DAGLike accessors ...) are not
                if t[1].name in COLLAB_PROTOCOLS or t[1].name in NODE_PROTOCOLS or t[1].name == 'PipelineContextLike':
                    return True
                if t[2] == 'run':
                    return True
        if all(t[0] == 'unknown' for t in targets):
            return True
        for t in targets:
            if t[0] == 'ext' and t[1].endswith(RAISING_EXT_SUFFIX):
                return True
            if t[0] == 'func':
                # call not expanded (depth / recursion cut): use the may-raise summary
                return may_raise_summary(self.p, t[1])
        return False


    def subscr_may_raise(self, node) -> bool:
        return id(node) in self.faulty_subscripts

    def member_may_raise(self, node) -> bool:
        return id(node) in self.faulty_subscripts


_mr_cache: Dict[int, Dict[str, bool]] = {}


def may_raise_summary(p: Program, unit: FuncUnit, _stack=None) -> bool:
    cache = _mr_cache.setdefault(id(p), {})
    if unit.fid in cache:
        return cache[unit.fid]
    _stack = _stack or set()
    if unit.fid in _stack:
        return False
    _stack.add(unit.fid)
    env = FuncEnv.of(p, unit)
    result = False
    for n in env.own_nodes():
        if isinstance(n, ast.Raise):
            result = True
            break
        if isinstance(n, ast.Call):
            tg = env.resolve_call(n)
            if all(t[0] == 'unknown' for t in tg) or any(
                    t[0] == 'proto' and (t[1].name in COLLAB_PROTOCOLS or t[1].name in NODE_PROTOCOLS
                                         or t[1].name == 'PipelineContextLike' or t[2] == 'run') for t in tg):
                result = True
                break
            for t in tg:
                if t[0] == 'func' and may_raise_summary(p, t[1], _stack):
                    result = True
                    break
            if result:
                break
    _stack.discard(unit.fid)
    cache[unit.fid] = result
    return result


# ---------------------------------------------------------------------------------------------
# Event classification with symbolic keys
# ---------------------------------------------------------------------------------------------

class Roles:
    def __init__(self, program: Program) -> None:
        self.p = program

    # -- helpers
    def recv_term(self, ev: Ev):
        c = ev.node
        if isinstance(c, ast.Call) and isinstance(c.func, ast.Attribute):
            return sym.term(self.p, c.func.value, ev.inst)
        return None

    def arg_term(self, ev: Ev, idx: int, name: Optional[str] = None):
        c = ev.node
        if not isinstance(c, ast.Call):
            return None
        if idx < len(c.args) and not isinstance(c.args[idx], ast.Starred):
            return sym.term(self.p, c.args[idx], ev.inst)
        if name is not None:
            for kw in c.keywords:
                if kw.arg == name:
                    return sym.term(self.p, kw.value, ev.inst)
        return None

    @staticmethod
    def store_key(recv_term) -> Optional[Tuple]:
        """cond = <store>[K]  ->  (store term, K)"""
        if isinstance(recv_term, tuple) and recv_term[0] == 'idx':
            return recv_term[1], recv_term[2]
        return None

    # -- condition / event primitives
    def notify(self, ev: Ev):
        """-> (key term, store term, strength) for Condition.notify_all / notify."""
        if is_ext(ev, 'Condition.notify_all'):
            sk = self.store_key(self.recv_term(ev))
            return (sk[1], sk[0], 'all') if sk else (('unknown',), None, 'all')
        if is_ext(ev, 'Condition.notify'):
            sk = self.store_key(self.recv_term(ev))
            return (sk[1], sk[0], 'one') if sk else (('unknown',), None, 'one')
        return None

    def wait(self, ev: Ev):
        if ev.kind == 'call' and ev.info.get('waitfor'):
            sk = self.store_key(self.recv_term(ev))
            return (sk[1], sk[0]) if sk else (('unknown',), None)
        return None

    def bare_wait(self, ev: Ev) -> bool:
        return is_ext(ev, 'Condition.wait')

    def event_set(self, ev: Ev):
        if is_ext(ev, 'asyncio.Event.set'):
            sk = self.store_key(self.recv_term(ev))
            return sk[1] if sk else ('unknown',)
        return None

    def event_wait(self, ev: Ev):
        if is_ext(ev, 'asyncio.Event.wait'):
            sk = self.store_key(self.recv_term(ev))
            return sk[1] if sk else ('unknown',)
        return None

    def event_clear(self, ev: Ev) -> bool:
        return is_ext(ev, 'asyncio.Event.clear')

    # -- tasks
    def spawn(self, ev: Ev) -> bool:
        return ev.kind == 'call' and any(n in SPAWN_EXT or n.endswith('.create_task') for n in ext_names(ev))

    def gather(self, ev: Ev) -> bool:
        return ev.kind == 'call' and any(n in GATHER_EXT for n in ext_names(ev))

    def sleep(self, ev: Ev) -> bool:
        return ev.kind == 'call' and any(n in SLEEP_EXT for n in ext_names(ev))

    # -- user code
    def body(self, ev: Ev) -> Optional[str]:
        """Invocation of user node code: 'process' (run method), 'default' (get_default),
        'ctor' (node construction), 'executor' (run in pool)."""
        if ev.kind != 'call' or ev.info.get('inlined') or ev.info.get('coro'):
            return None
        c = ev.node
        if not isinstance(c, ast.Call):
            return None
        if any(n.endswith('.run_in_executor') for n in ext_names(ev)) or (
                isinstance(c.func, ast.Attribute) and c.func.attr == 'run_in_executor'
                and all(t[0] == 'unknown' for t in ev.info.get('targets', ()))):      # the loop came through an un-annotated parameter
            for a in c.args[1:]:
                t = sym.term(self.p, a, ev.inst)
                if self._mentions_run_method(t):
                    return 'executor'
            return None
        if any(n.endswith('.wrap_future') for n in ext_names(ev)) and c.args:
            # asyncio.wrap_future(<pool>.submit(<body>, ...)): the same hand-over spelled with the pool's own future
            if self._mentions_run_method(sym.term(self.p, c.args[0], ev.inst)):
                return 'executor'
            return None
        for t in ev.info.get('targets', ()):
            # a call through the node protocol (an annotated node object): user node code
            if t[0] == 'proto' and t[1].name in NODE_PROTOCOLS:
                if t[2] == 'get_default':
                    return 'default'
                if t[2] == 'process':
                    return 'process'
        if not all(t[0] == 'unknown' for t in ev.info.get('targets', ())):
            return None
        ft = sym.term(self.p, c.func, ev.inst)
        if self._mentions_run_method(ft):
            return 'process'
        if isinstance(c.func, ast.Attribute) and c.func.attr == 'get_default':
            bt = sym.term(self.p, c.func.value, ev.inst)
            if self._mentions_instance(bt):
                return 'default'
        # the bound method taken first, called later: `get_default = get_instance(node).get_default; get_default(**kwargs)`
        if isinstance(ft, tuple) and ft and ft[0] == 'attr' and ft[2] == 'get_default' and self._mentions_instance(ft[1]):
            return 'default'
        # get_instance(cls): cls(*args) / default_factory(*args)
        if ev.inst.unit.name == 'get_instance' or self._is_param_ctor(ev):
            return 'ctor'
        return None

    def _mentions_run_method(self, t) -> bool:
        return sym.mentions(t, lambda s: isinstance(s, tuple) and s[0] == 'call'
                            and isinstance(s[1], str) and s[1].endswith('::get_callable_run_method'))

    def _mentions_instance(self, t) -> bool:
        return sym.mentions(t, lambda s: isinstance(s, tuple) and s[0] == 'call'
                            and isinstance(s[1], str) and s[1].endswith('::get_instance'))

    def _is_param_ctor(self, ev: Ev) -> bool:
        c = ev.node
        if isinstance(c.func, ast.Name):
            unit = ev.inst.unit
            return unit.fid.endswith('module_loading::get_instance')
        return False

    def collab(self, ev: Ev) -> Optional[str]:
        """Call into a user-supplied collaborator: 'event' (event manager callback) or 'store'."""
        if ev.kind != 'call' or ev.info.get('inlined') or ev.info.get('coro'):
            return None
        c = ev.node
        for t in ev.info.get('targets', ()):
            if t[0] == 'proto':
                if t[1].name == 'ArtifactStoreLike':
                    return 'store'
                if t[1].name == 'EventManagerLike':
                    return 'event'
                if t[1].name == 'PipelineContextLike':
                    # a user-supplied context: its emit_* / save_node_result are the collaborator calls
                    if t[2].startswith('emit_'):
                        return 'event'
                    if t[2].startswith('save_'):
                        return 'store'
        if all(t[0] == 'unknown' for t in ev.info.get('targets', ())) and isinstance(c, ast.Call):
            ft = sym.term(self.p, c.func, ev.inst)
            if self._is_hook_term(ft):
                return 'event'
        return None

    def _is_hook_term(self, ft, depth: int = 0) -> bool:
        """The called value is a hook looked up on an event manager: `getattr(mgr, event_name[, None])` itself, that look-up
        combined with None (`... or None`, a conditional expression), what an in-repo helper returns or an in-repo generator
        yields when every returned / yielded value is such a look-up."""
        if not isinstance(ft, tuple) or not ft or depth > 4:
            return False
        if ft[0] == 'call' and ft[1] == 'ext:builtins.getattr':
            return True
        if ft[0] in ('or', 'and'):
            parts = [x for x in ft[1] if x != ('const', None)]
            return bool(parts) and all(self._is_hook_term(x, depth + 1) for x in parts)
        if ft[0] == 'ifexp':
            parts = [x for x in (ft[2], ft[3]) if x != ('const', None)]
            return bool(parts) and all(self._is_hook_term(x, depth + 1) for x in parts)
        inner = ft[1] if ft[0] == 'elem' and isinstance(ft[1], tuple) else ft
        if inner and inner[0] == 'call' and isinstance(inner[1], str) and inner[1] in self.p.functions:
            fn = self.p.functions[inner[1]]
            fenv = FuncEnv.of(self.p, fn)
            want = ast.Yield if ft[0] == 'elem' else ast.Return
            outs = [n for n in fenv.own_nodes() if isinstance(n, want) and n.value is not None
                    and not (isinstance(n.value, ast.Constant) and n.value.value is None)]

            def is_lookup(e, d=0) -> bool:
                if isinstance(e, ast.Call) and isinstance(e.func, ast.Name) and e.func.id == 'getattr':
                    return True
                if isinstance(e, ast.BoolOp):
                    vals = [v for v in e.values if not (isinstance(v, ast.Constant) and v.value is None)]
                    return bool(vals) and all(is_lookup(v, d) for v in vals)
                if isinstance(e, ast.IfExp):
                    vals = [v for v in (e.body, e.orelse) if not (isinstance(v, ast.Constant) and v.value is None)]
                    return bool(vals) and all(is_lookup(v, d) for v in vals)
                if isinstance(e, ast.Name) and d < 2:
                    defs = fenv.local_defs().get(e.id, [])
                    return bool(defs) and all(x[0] == 'assign' and is_lookup(x[1], d + 1) for x in defs)
                return False
            return bool(outs) and all(is_lookup(o.value) for o in outs)
        return False

    def foreign(self, ev: Ev) -> Optional[str]:
        b = self.body(ev)
        if b:
            return f'body:{b}'
        c = self.collab(ev)
        if c:
            return f'collab:{c}'
        return None


# ---------------------------------------------------------------------------------------------
# Storage primitives (PUBLISH / HIDE / reads) found through the class of the receiver
# ---------------------------------------------------------------------------------------------

def access_path(t) -> Optional[str]:
    """('attr', ('attr', ('param','self'), '_node_storage'), 'node_results') -> 'self._node_storage.node_results'"""
    parts = []
    while isinstance(t, tuple) and t and t[0] in ('attr', 'prop'):
        parts.append(t[2])
        t = t[1]
    if isinstance(t, tuple) and t and t[0] == 'param':
        parts.append(t[1])
        return '.'.join(reversed(parts))
    if isinstance(t, tuple) and t and t[0] == 'global':
        parts.append(t[1].split('::')[-1])
        return '.'.join(reversed(parts))
    return None


def store_field(t) -> Optional[str]:
    """Last attribute of an access path: which store ('node_results', 'switch_results', ...)."""
    if isinstance(t, tuple) and t and t[0] in ('attr', 'prop'):
        return t[2]
    return None
